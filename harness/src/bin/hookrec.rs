//! hookrec: the command configured in generated `[[hook]]` tables.
//!
//! It records what the daemon handed to the hook (argv, key=value pairs rendered
//! from templates, selected environment, stdin) and what the files it is pointed
//! at look like, then exits with the scripted code. Events go to the file named
//! by ACMED_VERIF_TRACE (inherited from the daemon), one `write(2)` each, and
//! the "end" event is written before the process exits, i.e. before the daemon
//! can take its next step.
//!
//! usage: hookrec --hook NAME [--exit-seq 0,1,..] [--stat PATH].. [--stdin]
//!                [--env-prefix P].. [--sleep-ms N] [--out-marker TEXT] [-- k=v ..]

use openssl::hash::{hash, MessageDigest};
use serde_json::{json, Map, Value};
use std::fs::OpenOptions;
use std::io::{Read, Write};
use std::os::unix::fs::MetadataExt;

fn emit(line: &Value) {
	if let Ok(p) = std::env::var("ACMED_VERIF_TRACE") {
		if let Ok(mut f) = OpenOptions::new().append(true).create(true).open(p) {
			let mut s = line.to_string();
			s.push('\n');
			let _ = f.write_all(s.as_bytes());
		}
	}
}

fn stat_once(path: &str) -> Value {
	let with_content = std::env::args().any(|a| a == "--content");
	match std::fs::metadata(path) {
		Ok(md) => {
			let data = std::fs::read(path).unwrap_or_default();
			if with_content && data.len() <= 262_144 {
				let sha = hash(MessageDigest::sha256(), &data)
					.map(|d| hex::encode(d))
					.unwrap_or_default();
				return json!({"path": path, "exists": true, "is_file": md.is_file(), "len": data.len(),
					"sha": sha, "mode": md.mode() & 0o7777, "uid": md.uid(), "gid": md.gid(),
					"content": String::from_utf8_lossy(&data)});
			}
			let sha = hash(MessageDigest::sha256(), &data)
				.map(|d| hex::encode(d))
				.unwrap_or_default();
			json!({"path": path, "exists": true, "is_file": md.is_file(), "len": data.len(),
				"sha": sha, "mode": md.mode() & 0o7777, "uid": md.uid(), "gid": md.gid()})
		}
		Err(_) => json!({"path": path, "exists": false}),
	}
}

/// tokio completes file writes on a background thread after `write_all`
/// returned: read until two consecutive observations agree.
fn stat_stable(path: &str) -> Value {
	let mut prev = stat_once(path);
	for _ in 0..40 {
		std::thread::sleep(std::time::Duration::from_millis(5));
		let cur = stat_once(path);
		if cur == prev {
			return cur;
		}
		prev = cur;
	}
	prev
}

fn next_exit(name: &str, seq: &[i32]) -> i32 {
	if seq.is_empty() {
		return 0;
	}
	if seq.len() == 1 {
		return seq[0];
	}
	let dir = std::env::var("HOOKREC_STATE").unwrap_or_else(|_| "/tmp".to_string());
	let safe: String = name
		.chars()
		.map(|c| if c.is_ascii_alphanumeric() { c } else { '_' })
		.collect();
	let p = format!("{dir}/hookrec_{safe}.cnt");
	let n: usize = std::fs::read_to_string(&p)
		.ok()
		.and_then(|s| s.trim().parse().ok())
		.unwrap_or(0);
	let _ = std::fs::write(&p, format!("{}", n + 1));
	seq[n.min(seq.len() - 1)]
}

fn main() {
	let argv: Vec<String> = std::env::args().collect();
	let mut name = String::new();
	let mut exit_seq: Vec<i32> = vec![];
	let mut stats: Vec<String> = vec![];
	let mut want_stdin = false;
	let mut prefixes: Vec<String> = vec!["VT_".to_string()];
	let mut sleep_ms = 0u64;
	let mut kv = Map::new();
	let mut marker: Option<String> = None;
	let mut signal_self = false;
	let mut i = 1;
	while i < argv.len() {
		let a = argv[i].as_str();
		let val = argv.get(i + 1).cloned().unwrap_or_default();
		match a {
			"--hook" => {
				name = val;
				i += 2;
			}
			"--exit-seq" => {
				exit_seq = val.split(',').filter_map(|x| x.trim().parse().ok()).collect();
				i += 2;
			}
			"--stat" => {
				stats.push(val);
				i += 2;
			}
			"--env-prefix" => {
				prefixes.push(val);
				i += 2;
			}
			"--sleep-ms" => {
				sleep_ms = val.parse().unwrap_or(0);
				i += 2;
			}
			"--out-marker" => {
				marker = Some(val);
				i += 2;
			}
			"--stdin" => {
				want_stdin = true;
				i += 1;
			}
			"--signal" => {
				signal_self = true;
				i += 1;
			}
			"--" => {
				for p in &argv[i + 1..] {
					match p.split_once('=') {
						Some((k, v)) => {
							kv.insert(k.to_string(), json!(v));
						}
						None => {
							kv.insert(p.clone(), Value::Null);
						}
					}
				}
				break;
			}
			_ => {
				i += 1;
			}
		}
	}
	let pid = std::process::id();
	emit(&json!({"src": "hook", "ev": "HookRun", "phase": "start", "hook": name, "pid": pid}));
	// what a hook finds the moment the daemon has started it
	let files_first: Vec<Value> = stats.iter().map(|p| stat_once(p)).collect();
	let mut stdin_data = Value::Null;
	if want_stdin {
		let mut s = Vec::new();
		let _ = std::io::stdin().read_to_end(&mut s);
		stdin_data = json!(String::from_utf8_lossy(&s));
	}
	if let Some(m) = &marker {
		println!("{m}");
		eprintln!("{m}-err");
	}
	if sleep_ms > 0 {
		std::thread::sleep(std::time::Duration::from_millis(sleep_ms));
	}
	let mut env = Map::new();
	let mut vars: Vec<(String, String)> = std::env::vars().collect();
	vars.sort();
	for (k, v) in vars {
		if prefixes.iter().any(|p| k.starts_with(p.as_str())) {
			env.insert(k, json!(v));
		}
	}
	let files: Vec<Value> = stats.iter().map(|p| stat_stable(p)).collect();
	let code = next_exit(&name, &exit_seq);
	emit(&json!({
		"src": "hook", "ev": "HookRun", "phase": "end", "hook": name, "pid": pid,
		"kv": kv, "env": env, "stdin": stdin_data, "files": files, "files_first": files_first, "exit": code, "signal": signal_self,
		"argv": argv[1..].to_vec(),
	}));
	if signal_self {
		unsafe {
			libc::kill(libc::getpid(), libc::SIGKILL);
		}
	}
	std::process::exit(code);
}
