//! vcrypto: the independent crypto oracle of the verification harness.
//!
//! Reads one JSON request per line on stdin, writes one JSON answer per line on
//! stdout. It depends on OpenSSL and serde_json only -- *not* on acme_common --
//! so that what the mock CA and the drivers conclude about keys, signatures,
//! CSRs and certificates does not come from the code under test.

use base64::engine::general_purpose::{STANDARD, URL_SAFE_NO_PAD};
use base64::Engine;
use openssl::asn1::{Asn1Integer, Asn1Time};
use openssl::bn::{BigNum, BigNumContext};
use openssl::ec::{EcGroup, EcKey, EcPoint};
use openssl::ecdsa::EcdsaSig;
use openssl::hash::{hash, MessageDigest};
use openssl::nid::Nid;
use openssl::pkey::{Id, PKey, Private, Public};
use openssl::rsa::Rsa;
use openssl::sign::{Signer, Verifier};
use openssl::stack::Stack;
use openssl::x509::extension::{BasicConstraints, SubjectAlternativeName};
use openssl::x509::{X509Builder, X509NameBuilder, X509Req, X509};
use serde_json::{json, Value};
use std::io::{BufRead, Write};

type R<T> = Result<T, String>;

fn e<T: std::fmt::Display>(x: T) -> String {
	x.to_string()
}

fn sha256_hex(d: &[u8]) -> String {
	hex::encode(hash(MessageDigest::sha256(), d).unwrap())
}

fn b64u(d: &[u8]) -> String {
	URL_SAFE_NO_PAD.encode(d)
}

fn b64u_dec(s: &str) -> R<Vec<u8>> {
	URL_SAFE_NO_PAD.decode(s).map_err(|x| format!("base64url: {x}"))
}

fn gs<'a>(v: &'a Value, k: &str) -> R<&'a str> {
	v[k].as_str().ok_or_else(|| format!("missing string field {k}"))
}

// ------------------------------------------------------------------ keys

fn gen_key(t: &str) -> R<PKey<Private>> {
	let t = t.to_lowercase().replace('-', "_");
	let ec = |nid| -> R<PKey<Private>> {
		let g = EcGroup::from_curve_name(nid).map_err(e)?;
		PKey::from_ec_key(EcKey::generate(&g).map_err(e)?).map_err(e)
	};
	match t.as_str() {
		"rsa2048" => PKey::from_rsa(Rsa::generate(2048).map_err(e)?).map_err(e),
		"rsa4096" => PKey::from_rsa(Rsa::generate(4096).map_err(e)?).map_err(e),
		"ecdsa_p256" => ec(Nid::X9_62_PRIME256V1),
		"ecdsa_p384" => ec(Nid::SECP384R1),
		"ecdsa_p521" => ec(Nid::SECP521R1),
		"ed25519" => PKey::generate_ed25519().map_err(e),
		"ed448" => PKey::generate_ed448().map_err(e),
		_ => Err(format!("{t}: unknown key type")),
	}
}

fn key_type_name<T: openssl::pkey::HasPublic>(k: &PKey<T>) -> String {
	match k.id() {
		Id::RSA => format!("rsa{}", k.bits()),
		Id::EC => match k.bits() {
			256 => "ecdsa-p256".into(),
			384 => "ecdsa-p384".into(),
			521 => "ecdsa-p521".into(),
			n => format!("ec{n}"),
		},
		Id::ED25519 => "ed25519".into(),
		Id::ED448 => "ed448".into(),
		_ => "unknown".into(),
	}
}

fn spki_sha<T: openssl::pkey::HasPublic>(k: &PKey<T>) -> R<String> {
	Ok(sha256_hex(&k.public_key_to_der().map_err(e)?))
}

/// Strict JWK -> public key. Collects every deviation from RFC 7517/7518/8037
/// in `problems` but still tries to build the key.
fn jwk_to_key(jwk: &Value, problems: &mut Vec<String>) -> R<(PKey<Public>, String)> {
	let o = jwk.as_object().ok_or("jwk is not an object")?;
	let kty = gs(jwk, "kty")?;
	let allowed: &[&str] = match kty {
		"RSA" => &["kty", "n", "e", "alg", "use"],
		"EC" => &["kty", "crv", "x", "y", "alg", "use"],
		"OKP" => &["kty", "crv", "x", "alg", "use"],
		_ => return Err(format!("{kty}: unsupported kty")),
	};
	for k in o.keys() {
		if !allowed.contains(&k.as_str()) {
			problems.push(format!("unexpected jwk member {k}"));
		}
	}
	for k in ["d", "p", "q", "dp", "dq", "qi"] {
		if o.contains_key(k) {
			problems.push(format!("private member {k} in public jwk"));
		}
	}
	match kty {
		"RSA" => {
			let n = b64u_dec(gs(jwk, "n")?)?;
			let ev = b64u_dec(gs(jwk, "e")?)?;
			if n.first() == Some(&0) {
				problems.push("RSA n has a leading zero octet".into());
			}
			if ev.first() == Some(&0) {
				problems.push("RSA e has a leading zero octet".into());
			}
			let rsa = Rsa::from_public_components(
				BigNum::from_slice(&n).map_err(e)?,
				BigNum::from_slice(&ev).map_err(e)?,
			)
			.map_err(e)?;
			let k = PKey::from_rsa(rsa).map_err(e)?;
			let canon = format!(
				"{{\"e\":\"{}\",\"kty\":\"RSA\",\"n\":\"{}\"}}",
				gs(jwk, "e")?,
				gs(jwk, "n")?
			);
			Ok((k, canon))
		}
		"EC" => {
			let crv = gs(jwk, "crv")?;
			let (nid, size) = match crv {
				"P-256" => (Nid::X9_62_PRIME256V1, 32),
				"P-384" => (Nid::SECP384R1, 48),
				"P-521" => (Nid::SECP521R1, 66),
				_ => return Err(format!("{crv}: unsupported curve")),
			};
			let x = b64u_dec(gs(jwk, "x")?)?;
			let y = b64u_dec(gs(jwk, "y")?)?;
			if x.len() != size {
				problems.push(format!("EC x is {} octets, expected {size}", x.len()));
			}
			if y.len() != size {
				problems.push(format!("EC y is {} octets, expected {size}", y.len()));
			}
			let g = EcGroup::from_curve_name(nid).map_err(e)?;
			let bx = BigNum::from_slice(&x).map_err(e)?;
			let by = BigNum::from_slice(&y).map_err(e)?;
			let ec = EcKey::from_public_key_affine_coordinates(&g, &bx, &by).map_err(e)?;
			ec.check_key().map_err(e)?;
			let k = PKey::from_ec_key(ec).map_err(e)?;
			let canon = format!(
				"{{\"crv\":\"{crv}\",\"kty\":\"EC\",\"x\":\"{}\",\"y\":\"{}\"}}",
				gs(jwk, "x")?,
				gs(jwk, "y")?
			);
			Ok((k, canon))
		}
		"OKP" => {
			let crv = gs(jwk, "crv")?;
			let (id, size) = match crv {
				"Ed25519" => (Id::ED25519, 32),
				"Ed448" => (Id::ED448, 57),
				_ => return Err(format!("{crv}: unsupported OKP curve")),
			};
			let x = b64u_dec(gs(jwk, "x")?)?;
			if x.len() != size {
				problems.push(format!("OKP x is {} octets, expected {size}", x.len()));
			}
			let k = PKey::public_key_from_raw_bytes(&x, id).map_err(e)?;
			let canon = format!(
				"{{\"crv\":\"{crv}\",\"kty\":\"OKP\",\"x\":\"{}\"}}",
				gs(jwk, "x")?
			);
			Ok((k, canon))
		}
		_ => unreachable!(),
	}
}

fn jwk_info(req: &Value) -> R<Value> {
	let mut problems = vec![];
	let (k, canon) = jwk_to_key(&req["jwk"], &mut problems)?;
	let tp = b64u(&hash(MessageDigest::sha256(), canon.as_bytes()).map_err(e)?);
	Ok(json!({
		"key_type": key_type_name(&k),
		"spki_sha": spki_sha(&k)?,
		"thumbprint": tp,
		"canonical": canon,
		"problems": problems,
	}))
}

fn expected_algs(k: &PKey<Public>) -> Vec<&'static str> {
	match k.id() {
		Id::RSA => vec!["RS256"],
		Id::EC => match k.bits() {
			256 => vec!["ES256"],
			384 => vec!["ES384"],
			521 => vec!["ES512"],
			_ => vec![],
		},
		// RFC 8037 ("EdDSA") and RFC 9864 (fully specified names)
		Id::ED25519 => vec!["EdDSA", "Ed25519"],
		Id::ED448 => vec!["EdDSA", "Ed448"],
		_ => vec![],
	}
}

fn verify_with(k: &PKey<Public>, alg: &str, input: &[u8], sig: &[u8]) -> R<(bool, Vec<String>)> {
	let mut problems = vec![];
	if !expected_algs(k).contains(&alg) {
		problems.push(format!(
			"alg {alg} does not match a {} key",
			key_type_name(k)
		));
	}
	let ok = match k.id() {
		Id::RSA => {
			let want = (k.bits() as usize + 7) / 8;
			if sig.len() != want {
				problems.push(format!("RSA signature is {} octets, expected {want}", sig.len()));
			}
			let mut v = Verifier::new(MessageDigest::sha256(), k).map_err(e)?;
			v.update(input).map_err(e)?;
			v.verify(sig).unwrap_or(false)
		}
		Id::EC => {
			let (size, md) = match k.bits() {
				256 => (32, MessageDigest::sha256()),
				384 => (48, MessageDigest::sha384()),
				521 => (66, MessageDigest::sha512()),
				_ => return Err("unsupported curve".into()),
			};
			if sig.len() != 2 * size {
				problems.push(format!(
					"ECDSA signature is {} octets, expected {} (fixed-width R||S)",
					sig.len(),
					2 * size
				));
				false
			} else {
				let r = BigNum::from_slice(&sig[..size]).map_err(e)?;
				let s = BigNum::from_slice(&sig[size..]).map_err(e)?;
				let es = EcdsaSig::from_private_components(r, s).map_err(e)?;
				let dg = hash(md, input).map_err(e)?;
				es.verify(&dg, k.ec_key().map_err(e)?.as_ref())
					.unwrap_or(false)
			}
		}
		Id::ED25519 | Id::ED448 => {
			let want = if k.id() == Id::ED25519 { 64 } else { 114 };
			if sig.len() != want {
				problems.push(format!("EdDSA signature is {} octets, expected {want}", sig.len()));
			}
			let mut v = Verifier::new_without_digest(k).map_err(e)?;
			v.verify_oneshot(sig, input).unwrap_or(false)
		}
		_ => false,
	};
	Ok((ok, problems))
}

/// {"jwk":..,"alg":..,"protected":b64u,"payload":b64u,"signature":b64u}
fn jws_verify(req: &Value) -> R<Value> {
	let mut problems = vec![];
	let (k, _) = jwk_to_key(&req["jwk"], &mut problems)?;
	let input = format!("{}.{}", gs(req, "protected")?, gs(req, "payload")?);
	let sig = b64u_dec(gs(req, "signature")?)?;
	let (ok, mut p2) = verify_with(&k, gs(req, "alg")?, input.as_bytes(), &sig)?;
	problems.append(&mut p2);
	// how many leading zero octets the two ECDSA components have (rare encodings)
	let lead = if k.id() == Id::EC && sig.len() % 2 == 0 && !sig.is_empty() {
		let h = sig.len() / 2;
		json!([sig[0] == 0, sig[h] == 0])
	} else {
		Value::Null
	};
	Ok(json!({"ok": ok, "sig_len": sig.len(), "problems": problems, "lead_zero": lead,
		"key_type": key_type_name(&k), "spki_sha": spki_sha(&k)?}))
}

fn hmac_verify(req: &Value) -> R<Value> {
	let key = b64u_dec(gs(req, "key")?)?;
	let md = match gs(req, "alg")? {
		"HS256" => MessageDigest::sha256(),
		"HS384" => MessageDigest::sha384(),
		"HS512" => MessageDigest::sha512(),
		a => return Err(format!("{a}: not an HMAC algorithm")),
	};
	let input = format!("{}.{}", gs(req, "protected")?, gs(req, "payload")?);
	let pk = PKey::hmac(&key).map_err(e)?;
	let mut s = Signer::new(md, &pk).map_err(e)?;
	s.update(input.as_bytes()).map_err(e)?;
	let mac = s.sign_to_vec().map_err(e)?;
	let sig = b64u_dec(gs(req, "signature")?)?;
	Ok(json!({"ok": openssl::memcmp::eq(&mac, &sig) , "sig_len": sig.len()}))
}

// ------------------------------------------------------------------ X.509

fn name_of(cn: &str) -> R<openssl::x509::X509Name> {
	let mut nb = X509NameBuilder::new().map_err(e)?;
	nb.append_entry_by_text("O", "verif harness").map_err(e)?;
	// a common name holds 64 characters (X.520 ub-common-name): longer names are only in the subjectAltName, as real CAs do
	if cn.chars().count() <= 64 {
		nb.append_entry_by_text("CN", cn).map_err(e)?;
	}
	Ok(nb.build())
}

fn serial() -> R<Asn1Integer> {
	let mut s = BigNum::new().map_err(e)?;
	s.rand(63, openssl::bn::MsbOption::MAYBE_ZERO, false)
		.map_err(e)?;
	s.to_asn1_integer().map_err(e)
}

fn time_at(offset_s: i64) -> R<Asn1Time> {
	let now = std::time::SystemTime::now()
		.duration_since(std::time::UNIX_EPOCH)
		.map_err(e)?
		.as_secs() as i64;
	Asn1Time::from_unix(now + offset_s).map_err(e)
}

fn sign_digest(k: &PKey<Private>) -> MessageDigest {
	match k.id() {
		Id::ED25519 | Id::ED448 => MessageDigest::null(),
		_ => MessageDigest::sha256(),
	}
}

/// {"cn":..,"key_type":..,"issuer_cert"?:pem,"issuer_key"?:pem,"not_before_s"?,"not_after_s"?}
fn make_ca(req: &Value) -> R<Value> {
	let key = gen_key(req["key_type"].as_str().unwrap_or("ecdsa_p256"))?;
	let cn = req["cn"].as_str().unwrap_or("verif CA");
	let subject = name_of(cn)?;
	let mut b = X509Builder::new().map_err(e)?;
	b.set_version(2).map_err(e)?;
	let sn = serial()?;
	b.set_serial_number(&sn).map_err(e)?;
	b.set_subject_name(&subject).map_err(e)?;
	b.set_pubkey(&key).map_err(e)?;
	let t1 = time_at(req["not_before_s"].as_i64().unwrap_or(-3600))?;
	let t2 = time_at(req["not_after_s"].as_i64().unwrap_or(10 * 365 * 86400))?;
	b.set_not_before(&t1).map_err(e)?;
	b.set_not_after(&t2).map_err(e)?;
	b.append_extension(BasicConstraints::new().critical().ca().build().map_err(e)?)
		.map_err(e)?;
	match (req["issuer_cert"].as_str(), req["issuer_key"].as_str()) {
		(Some(ic), Some(ik)) => {
			let ic = X509::from_pem(ic.as_bytes()).map_err(e)?;
			let ik = PKey::private_key_from_pem(ik.as_bytes()).map_err(e)?;
			b.set_issuer_name(ic.subject_name()).map_err(e)?;
			b.sign(&ik, sign_digest(&ik)).map_err(e)?;
		}
		_ => {
			b.set_issuer_name(&subject).map_err(e)?;
			b.sign(&key, sign_digest(&key)).map_err(e)?;
		}
	}
	let c = b.build();
	Ok(json!({
		"cert_pem": String::from_utf8(c.to_pem().map_err(e)?).map_err(e)?,
		"key_pem": String::from_utf8(key.private_key_to_pem_pkcs8().map_err(e)?).map_err(e)?,
	}))
}

fn san_ext(
	dns: &[String],
	ips: &[String],
	ctx: &openssl::x509::X509v3Context,
) -> R<Option<openssl::x509::X509Extension>> {
	if dns.is_empty() && ips.is_empty() {
		return Ok(None);
	}
	let mut san = SubjectAlternativeName::new();
	for d in dns {
		san.dns(d);
	}
	for i in ips {
		san.ip(i);
	}
	Ok(Some(san.build(ctx).map_err(e)?))
}

fn strs(v: &Value) -> Vec<String> {
	v.as_array()
		.map(|a| {
			a.iter()
				.filter_map(|x| x.as_str().map(str::to_string))
				.collect()
		})
		.unwrap_or_default()
}

/// Issues a leaf certificate. Either from a CSR ({"csr":b64u der}: SANs and
/// public key are taken from it) or from explicit material
/// ({"pub_pem"|"key_type", "dns":[..], "ips":[..]}).
fn make_leaf(req: &Value) -> R<Value> {
	let ic = X509::from_pem(gs(req, "issuer_cert")?.as_bytes()).map_err(e)?;
	let ik = PKey::private_key_from_pem(gs(req, "issuer_key")?.as_bytes()).map_err(e)?;
	let mut out_key = Value::Null;
	let (pubkey, dns, ips): (PKey<Public>, Vec<String>, Vec<String>) = if let Some(c) =
		req["csr"].as_str()
	{
		let info = csr_parse_inner(&b64u_dec(c)?)?;
		let csr = X509Req::from_der(&b64u_dec(c)?).map_err(e)?;
		(
			csr.public_key().map_err(e)?,
			strs(&info["dns"]),
			strs(&info["ips"]),
		)
	} else {
		let (pk, pem) = match req["pub_pem"].as_str() {
			Some(p) => (PKey::public_key_from_pem(p.as_bytes()).map_err(e)?, None),
			None => {
				let k = gen_key(req["key_type"].as_str().unwrap_or("ecdsa_p256"))?;
				let pem = String::from_utf8(k.private_key_to_pem_pkcs8().map_err(e)?).map_err(e)?;
				(
					PKey::public_key_from_der(&k.public_key_to_der().map_err(e)?).map_err(e)?,
					Some(pem),
				)
			}
		};
		if let Some(p) = pem {
			out_key = json!(p);
		}
		(pk, strs(&req["dns"]), strs(&req["ips"]))
	};
	let (dns, ips) = match req["san_override"].as_object() {
		Some(o) => (strs(&o["dns"]), strs(&o["ips"])),
		None => (dns, ips),
	};
	let mut b = X509Builder::new().map_err(e)?;
	b.set_version(2).map_err(e)?;
	let sn = serial()?;
	b.set_serial_number(&sn).map_err(e)?;
	let subj = name_of(req["cn"].as_str().unwrap_or("leaf"))?;
	b.set_subject_name(&subj).map_err(e)?;
	b.set_issuer_name(ic.subject_name()).map_err(e)?;
	b.set_pubkey(&pubkey).map_err(e)?;
	let t1 = time_at(req["not_before_s"].as_i64().unwrap_or(-60))?;
	let t2 = time_at(req["not_after_s"].as_i64().unwrap_or(90 * 86400))?;
	b.set_not_before(&t1).map_err(e)?;
	b.set_not_after(&t2).map_err(e)?;
	let ext = {
		let ctx = b.x509v3_context(Some(&ic), None);
		san_ext(&dns, &ips, &ctx)?
	};
	if let Some(x) = ext {
		b.append_extension(x).map_err(e)?;
	}
	b.sign(&ik, sign_digest(&ik)).map_err(e)?;
	let c = b.build();
	Ok(json!({
		"cert_pem": String::from_utf8(c.to_pem().map_err(e)?).map_err(e)?,
		"key_pem": out_key,
		"spki_sha": spki_sha(&pubkey)?,
	}))
}

fn general_names(gns: Option<Stack<openssl::x509::GeneralName>>) -> (Vec<String>, Vec<String>, usize) {
	let mut dns = vec![];
	let mut ips = vec![];
	let mut other = 0;
	if let Some(s) = gns {
		for g in s.iter() {
			if let Some(d) = g.dnsname() {
				dns.push(d.to_string());
			} else if let Some(i) = g.ipaddress() {
				match i.len() {
					4 => ips.push(std::net::Ipv4Addr::new(i[0], i[1], i[2], i[3]).to_string()),
					16 => {
						let mut a = [0u8; 16];
						a.copy_from_slice(i);
						ips.push(std::net::Ipv6Addr::from(a).to_string());
					}
					_ => other += 1,
				}
			} else {
				other += 1;
			}
		}
	}
	(dns, ips, other)
}

fn name_entries(n: &openssl::x509::X509NameRef) -> Vec<Value> {
	n.entries()
		.map(|en| {
			json!([
				en.object().nid().short_name().unwrap_or("?"),
				en.data()
					.as_utf8()
					.map(|s| s.to_string())
					.unwrap_or_default()
			])
		})
		.collect()
}

fn csr_parse_inner(der: &[u8]) -> R<Value> {
	let csr = X509Req::from_der(der).map_err(|x| format!("CSR does not parse: {x}"))?;
	let pk = csr.public_key().map_err(e)?;
	let verify_ok = csr.verify(&pk).unwrap_or(false);
	let mut dns = vec![];
	let mut ips = vec![];
	let mut other = 0;
	let mut nb_ext = 0;
	if let Ok(exts) = csr.extensions() {
		nb_ext = exts.len();
	}
	// the SAN is read through a throw-away certificate carrying the CSR's extensions
	if let Ok(exts) = csr.extensions() {
		let mut b = X509Builder::new().map_err(e)?;
		for x in exts {
			let _ = b.append_extension(x);
		}
		let tmp = b.build();
		let (d, i, o) = general_names(tmp.subject_alt_names());
		dns = d;
		ips = i;
		other = o;
	}
	let sig_nid = csr_sig_nid(&csr);
	Ok(json!({
		"verify_ok": verify_ok,
		"dns": dns, "ips": ips, "other_san": other, "nb_ext": nb_ext,
		"subject": name_entries(csr.subject_name()),
		"sig_alg": sig_nid,
		"spki_sha": spki_sha(&pk)?,
		"key_type": key_type_name(&pk),
		"version": csr.version(),
	}))
}

fn csr_sig_nid(csr: &X509Req) -> String {
	// the textual form is the portable way to the signature algorithm with this binding
	let txt = csr.to_text().map(|t| String::from_utf8_lossy(&t).to_string()).unwrap_or_default();
	for l in txt.lines() {
		let l = l.trim();
		if let Some(r) = l.strip_prefix("Signature Algorithm:") {
			return r.trim().to_string();
		}
	}
	String::new()
}

fn cert_info(c: &X509) -> R<Value> {
	let pk = c.public_key().map_err(e)?;
	let (dns, ips, other) = general_names(c.subject_alt_names());
	let self_signed = c.verify(&pk).unwrap_or(false) && c.issued(c) == openssl::x509::X509VerifyResult::OK;
	let now = time_at(0)?;
	let nb = now.diff(c.not_before()).map_err(e)?;
	let na = now.diff(c.not_after()).map_err(e)?;
	let nb_s = nb.days as i64 * 86400 + nb.secs as i64;
	let na_s = na.days as i64 * 86400 + na.secs as i64;
	let der = c.to_der().map_err(e)?;
	let exts = der_extensions(&der).unwrap_or_default();
	Ok(json!({
		"spki_sha": spki_sha(&pk)?,
		"key_type": key_type_name(&pk),
		"dns": dns, "ips": ips, "other_san": other,
		"subject": name_entries(c.subject_name()),
		"issuer": name_entries(c.issuer_name()),
		"self_signed": self_signed,
		"not_before_in_s": nb_s, "not_after_in_s": na_s,
		"valid_now": nb_s <= 0 && na_s >= 0,
		"extensions": exts,
		"sha": sha256_hex(&der),
		"sig_alg": c.signature_algorithm().object().nid().short_name().unwrap_or("?"),
	}))
}

// Minimal DER walker: returns [{oid, critical, value_hex}] of a certificate's extensions.
fn der_tlv(d: &[u8]) -> Option<(u8, &[u8], &[u8])> {
	if d.len() < 2 {
		return None;
	}
	let tag = d[0];
	let (len, off) = if d[1] & 0x80 == 0 {
		(d[1] as usize, 2)
	} else {
		let n = (d[1] & 0x7f) as usize;
		if n == 0 || n > 4 || d.len() < 2 + n {
			return None;
		}
		let mut l = 0usize;
		for b in &d[2..2 + n] {
			l = (l << 8) | *b as usize;
		}
		(l, 2 + n)
	};
	if d.len() < off + len {
		return None;
	}
	Some((tag, &d[off..off + len], &d[off + len..]))
}

fn oid_str(d: &[u8]) -> String {
	if d.is_empty() {
		return String::new();
	}
	let mut parts = vec![(d[0] / 40) as u64, (d[0] % 40) as u64];
	let mut v = 0u64;
	for b in &d[1..] {
		v = (v << 7) | (*b & 0x7f) as u64;
		if b & 0x80 == 0 {
			parts.push(v);
			v = 0;
		}
	}
	parts
		.iter()
		.map(|p| p.to_string())
		.collect::<Vec<_>>()
		.join(".")
}

fn der_extensions(der: &[u8]) -> Option<Vec<Value>> {
	let (_, cert, _) = der_tlv(der)?;
	let (_, tbs, _) = der_tlv(cert)?;
	let mut rest = tbs;
	let mut out = vec![];
	while let Some((tag, val, r)) = der_tlv(rest) {
		rest = r;
		if tag == 0xa3 {
			let (_, seq, _) = der_tlv(val)?;
			let mut xs = seq;
			while let Some((_, ext, r2)) = der_tlv(xs) {
				xs = r2;
				let (t1, oid, mut after) = der_tlv(ext)?;
				if t1 != 0x06 {
					continue;
				}
				let mut critical = false;
				if let Some((0x01, b, a2)) = der_tlv(after) {
					critical = b.first().map(|x| *x != 0).unwrap_or(false);
					after = a2;
				}
				let (t3, octets, _) = der_tlv(after)?;
				if t3 != 0x04 {
					continue;
				}
				out.push(json!({"oid": oid_str(oid), "critical": critical, "value_hex": hex::encode(octets)}));
			}
		}
	}
	Some(out)
}

/// {"pem": "..."} (a chain) or {"der": b64 standard}
fn cert_parse(req: &Value) -> R<Value> {
	if let Some(d) = req["der"].as_str() {
		let der = STANDARD.decode(d).map_err(e)?;
		let c = X509::from_der(&der).map_err(e)?;
		return Ok(json!({"count": 1, "certs": [cert_info(&c)?]}));
	}
	let pem = gs(req, "pem")?;
	let stack = X509::stack_from_pem(pem.as_bytes()).map_err(|x| format!("PEM chain does not parse: {x}"))?;
	if stack.is_empty() {
		return Err("no certificate in PEM data".into());
	}
	// the text must consist of PEM certificate blocks only
	let mut residue = String::new();
	let mut inside = false;
	for l in pem.lines() {
		if l.starts_with("-----BEGIN CERTIFICATE-----") {
			inside = true;
		} else if l.starts_with("-----END CERTIFICATE-----") {
			inside = false;
		} else if !inside && !l.trim().is_empty() {
			residue.push_str(l);
			residue.push('\n');
		}
	}
	let infos: Vec<Value> = stack.iter().map(cert_info).collect::<R<Vec<_>>>()?;
	Ok(json!({"count": infos.len(), "certs": infos, "residue_len": residue.len()}))
}

fn key_parse(req: &Value) -> R<Value> {
	let pem = gs(req, "pem")?;
	let k = PKey::private_key_from_pem(pem.as_bytes()).map_err(|x| format!("key does not parse: {x}"))?;
	// exactly one PEM block and nothing else
	let nb_begin = pem.matches("-----BEGIN").count();
	let end_marker = pem.rfind("-----END").map(|i| {
		pem[i..].find('\n').map(|j| i + j + 1).unwrap_or(pem.len())
	}).unwrap_or(0);
	let trailing = pem.len().saturating_sub(end_marker);
	Ok(json!({"spki_sha": spki_sha(&k)?, "key_type": key_type_name(&k), "nb_blocks": nb_begin, "trailing_len": trailing}))
}

fn gen_key_cmd(req: &Value) -> R<Value> {
	let k = gen_key(gs(req, "key_type")?)?;
	let pem = if req["traditional"].as_bool().unwrap_or(false) {
		match k.id() {
			Id::RSA => k.rsa().map_err(e)?.private_key_to_pem().map_err(e)?,
			Id::EC => k.ec_key().map_err(e)?.private_key_to_pem().map_err(e)?,
			_ => k.private_key_to_pem_pkcs8().map_err(e)?,
		}
	} else {
		k.private_key_to_pem_pkcs8().map_err(e)?
	};
	Ok(json!({
		"key_pem": String::from_utf8(pem).map_err(e)?,
		"pub_pem": String::from_utf8(k.public_key_to_pem().map_err(e)?).map_err(e)?,
		"spki_sha": spki_sha(&k)?,
	}))
}

fn sha_cmd(req: &Value) -> R<Value> {
	let data = match req["b64u"].as_str() {
		Some(b) => b64u_dec(b)?,
		None => gs(req, "text")?.as_bytes().to_vec(),
	};
	let d = hash(MessageDigest::sha256(), &data).map_err(e)?;
	Ok(json!({"hex": hex::encode(&d), "b64u": b64u(&d)}))
}

fn handle(req: &Value) -> R<Value> {
	match gs(req, "cmd")? {
		"ping" => Ok(json!({"pong": true})),
		"gen_key" => gen_key_cmd(req),
		"key_parse" => key_parse(req),
		"jwk_info" => jwk_info(req),
		"jws_verify" => jws_verify(req),
		"hmac_verify" => hmac_verify(req),
		"make_ca" => make_ca(req),
		"make_leaf" => make_leaf(req),
		"csr_parse" => csr_parse_inner(&b64u_dec(gs(req, "csr")?)?),
		"cert_parse" => cert_parse(req),
		"sha256" => sha_cmd(req),
		c => Err(format!("{c}: unknown command")),
	}
}

fn main() {
	let _ = (EcPoint::new, BigNumContext::new); // keep imports used on all OpenSSL versions
	let stdin = std::io::stdin();
	let stdout = std::io::stdout();
	for line in stdin.lock().lines() {
		let line = match line {
			Ok(l) => l,
			Err(_) => break,
		};
		if line.trim().is_empty() {
			continue;
		}
		let ans = match serde_json::from_str::<Value>(&line) {
			Ok(req) => match handle(&req) {
				Ok(mut v) => {
					v["ok_call"] = json!(true);
					v
				}
				Err(m) => json!({"ok_call": false, "error": m}),
			},
			Err(x) => json!({"ok_call": false, "error": format!("bad request: {x}")}),
		};
		let mut o = stdout.lock();
		let _ = writeln!(o, "{ans}");
		let _ = o.flush();
	}
}
