"""Scenario families shared by the daemon-level checks: baseline discovery, fault catalogue, parallel runs."""
import concurrent.futures as cf, json, os, random, time, traceback
from common import log, ToolError
from scenario import Scenario, simple_cert
from mockca import ALL_ACME_ERRORS, RECOVERABLE

NONREC = [e for e in ALL_ACME_ERRORS if e not in RECOVERABLE]


# CA "dialects": ways in which conforming CAs differ that no property mentions (the names in URLs, headers a client may ignore,
# members it must ignore).  Every scenario is run against one of them, chosen by its tag; what a scenario sets itself is kept.
DIALECTS = [{}, {"host": "LocalHost"}, {"retry_after": 0}, {"unknown_members": True}, {"orders_field": False},
            {"retry_after": 7, "host": "LocalHost", "unknown_members": True}, {"pem_style": "crlf"}, {"pem_style": "nofinal"}, {},
            # a CA that validates while it answers the challenge POST (the answer already says "valid"); one that lists contacts in its own order
            {"authz_polls": 0}, {"contact_order": "reversed"}, {"authz_polls": 0, "contact_order": "sorted", "retry_after": 0}]


def with_dialect(spec):
    import zlib
    if spec.get("no_dialect") or os.environ.get("VERIF_NO_DIALECT"):
        return spec, {}
    d = DIALECTS[zlib.crc32(spec["tag"].encode()) % len(DIALECTS)]
    if not d:
        return spec, {}
    eps = {}
    for name, e in (spec.get("endpoints") or {"A": {}}).items():
        ca = dict(e.get("ca") or {})
        if not ca.get("tls"):
            for k, v in d.items():
                ca.setdefault(k, v)
        eps[name] = dict(e, ca=ca)
    return dict(spec, endpoints=eps), d


def run_one(spec):
    """spec: dict(tag=..., scenario kwargs..., steps=[...]) -> dict(tag, events, results).
    steps: list of ("run", {attempts, env}) | ("call", fn(scenario)) executed in order (default one run)."""
    spec, dialect = with_dialect(spec)
    kw = {k: v for k, v in spec.items() if k not in ("steps", "meta", "no_dialect")}
    sc = Scenario(**kw)
    res = {"tag": spec["tag"], "meta": spec.get("meta"), "runs": [], "error": None, "dialect": dialect}
    try:
        sc.setup()
        for step in spec.get("steps") or [("run", {})]:
            if step[0] == "run":
                r = sc.run(**step[1])
                res["runs"].append({k: r[k] for k in ("rc", "hung", "wall")} | {"stderr_tail": r["stderr"][-1500:],
                                   "stderr_has_error": bool(r["stderr"].strip()),   # any message at all: wording and log level are not part of a property
                                   "stderr_has_panic": "panicked at" in r["stderr"] or "stack overflow" in r["stderr"]})
            elif step[0] == "call":
                step[1](sc)
        res["events"] = sc.events()
        res["world"] = sc.world.root
        # an exception inside the mock CA is a fault of the tooling, never an observation about the daemon
        he = [e["harness_error"] for e in res["events"] if e.get("harness_error")]
        if he:
            res["error"] = "the mock CA raised: %s" % he[0][:600]
        res["tables"] = {n: ca.table() for n, ca in sc.cas.items()}
    except Exception as ex:
        res["error"] = "%r\n%s" % (ex, traceback.format_exc())
        res["events"] = []
    finally:
        try:
            sc.close()
        except Exception:
            pass
    return res


def run_many(specs, workers=10):
    t0 = time.time()
    out = []
    with cf.ThreadPoolExecutor(max_workers=workers) as ex:
        for r in ex.map(run_one, specs):
            if r["error"]:
                raise ToolError("scenario %s failed in the harness: %s" % (r["tag"], r["error"]))
            out.append(r)
    log("ran %d scenarios in %.1fs" % (len(specs), time.time() - t0))
    return out


def baseline_positions(tag, certs, **kw):
    """Runs the fault-free flow once and returns the CA-side request sequence [(kind, kind_n, method)]."""
    r = run_one(dict(tag=tag, certs=certs, **kw))
    pos = [(e["kind"], e["kind_n"], e["method"]) for e in r["events"] if e.get("src") == "ca" and e.get("ev") == "CaReq"]
    ok = any(e.get("ev") == "AttemptEnd" and e.get("is_success") for e in r["events"])
    if not ok or r["runs"][0]["hung"]:
        raise ToolError("baseline flow did not succeed: %s" % r["runs"][0]["stderr_tail"])
    return pos, r


FAULTS_ANY = ["drop_before", "drop_after", "err:nonjson:500", "err:empty:503", "err:jsonarray:400", "acme:notype:400",
              "acme:unknownType:400"]
FAULTS_POST_OK = ["ok:no_nonce", "ok:bad_nonce_header", "ok:malformed_json", "ok:missing_fields"]
FAULTS_BY_KIND = {
    "newAccount": ["ok:no_location"], "newOrder": ["ok:no_location"],
    "authz": ["obj:status=invalid", "obj:status=deactivated", "obj:status=expired", "obj:status=revoked", "obj:status=weird"],
    "order": ["obj:status=invalid", "obj:status=processing", "obj:nocert", "obj:status=weird"],
    "cert": ["ok:nonpem", "ok:truncated", "ok:emptybody", "ok:blankbody", "ok:pem_then_garbage", "ok:other_key", "ok:issuer_first", "ok:other_then_leaf"],
    "directory": ["ok:malformed_json", "ok:missing_fields"],
    "newNonce": ["ok:no_nonce", "ok:bad_nonce_header"],
}


def fault_catalogue(kind, method):
    fs = list(FAULTS_ANY)
    fs += ["acme:%s:%d" % (t, 400 if i % 2 == 0 else 500 + (i % 4)) for i, t in enumerate(ALL_ACME_ERRORS)]
    if method == "POST":
        fs += FAULTS_POST_OK
    fs += FAULTS_BY_KIND.get(kind, [])
    seen, out = set(), []
    for f in fs:
        if f not in seen:
            seen.add(f)
            out.append(f)
    return out


def single_fault_specs(tag, cert, positions, tier, seed, attempts=1, pre_modes=("none", "pair"), reuse_modes=(False, True),
                       quick_stride=7, extra=None, dense_kinds=(), dense_cells=None):
    """Every request position x every fault of the catalogue x pre-existing pair x kp_reuse.
    quick: a rotating 1/quick_stride sample; request kinds named in dense_kinds are not sampled for the ACME error types
    (every type x every pre/reuse cell, answered once: the cases where special handling of one error type at one step
    would hide). thorough: everything, ACME errors both answered once and repeated."""
    import flowcheck
    specs = []
    n = 0
    for pre in pre_modes:
        for reuse in reuse_modes:
            dense_here = dense_cells is None or (pre, reuse) in dense_cells
            c = dict(cert)
            c["kp_reuse"] = reuse
            for (kind, nth, m) in positions:
                for f in fault_catalogue(kind, m):
                    n += 1
                    acme = f.startswith("acme:")
                    reps = []
                    if tier == "thorough":
                        reps = [1, 2 + (n % 2)] if acme else [1]
                    else:
                        if (n + seed) % quick_stride == 0:
                            reps.append(1 if not acme else (1 + (n % 3)))
                        if acme and dense_here and kind in dense_kinds and 1 not in reps:
                            reps.append(1)
                        # the few faults that exist for this kind of request only (object statuses, certificate bodies): never sampled away
                        if kind in dense_kinds and f in FAULTS_BY_KIND.get(kind, ()) and not reps:
                            reps.append(1)
                    for rep in reps:
                        sp = dict(tag="%s/s%04d" % (tag, len(specs)), certs=[c], attempts=attempts,
                                  endpoints={"A": {"script": [{"kind": kind, "nth": nth, "fault": f, "repeat": rep}]}},
                                  meta={"family": "single fault", "kind": kind, "nth": nth, "fault": f, "repeat": rep, "pre": pre, "kp_reuse": reuse})
                        steps = []
                        if pre != "none":
                            steps.append(("call", flowcheck.install_pair(c, pre)))
                        steps.append(("run", {}))
                        sp["steps"] = steps
                        if extra:
                            sp.update(extra)
                        specs.append(flowcheck.prepare(sp))
    return specs


def multi_fault_specs(tag, cert, positions, count, seed, attempts=3, pre_modes=("none", "pair")):
    import flowcheck
    rng = random.Random(seed)
    specs = []
    for i in range(count):
        c = dict(cert)
        c["kp_reuse"] = rng.random() < 0.5
        script = []
        for _ in range(rng.randint(2, 4)):
            kind, nth, m = rng.choice(positions)
            f = rng.choice(fault_catalogue(kind, m))
            script.append({"kind": kind, "nth": nth + rng.choice([0, 0, 1, 2]), "fault": f, "repeat": rng.randint(1, 3)})
        pre = rng.choice(pre_modes)
        sp = dict(tag="%s/m%04d" % (tag, i), certs=[c], attempts=attempts, endpoints={"A": {"script": script}},
                  meta={"family": "multi fault", "script": script, "pre": pre, "kp_reuse": c["kp_reuse"]})
        steps = []
        if pre != "none":
            steps.append(("call", flowcheck.install_pair(c, pre)))
        steps.append(("run", {}))
        sp["steps"] = steps
        specs.append(flowcheck.prepare(sp))
    return specs
