"""Runs TLC (model checking and trace validation) and parses what it reports."""
import json, os, re, shutil, subprocess, time
from common import ROOT, WORK, ToolError, log

SPEC = os.path.join(ROOT, "spec")
JAR = "/opt/veriftools/tla/tla2tools.jar:/opt/veriftools/tla/CommunityModules-deps.jar"


def tla_set(items):
    return "{" + ", ".join(json.dumps(x) for x in sorted(items)) + "}"


def _run(module, cfg_text, tag, workers, timeout, env=None, java_opts="", extra=None, heap="4g", coverage=True):
    d = os.path.join(WORK, "tlc", tag)
    shutil.rmtree(d, ignore_errors=True)
    os.makedirs(d, exist_ok=True)
    cfg = os.path.join(d, module + ".cfg")
    open(cfg, "w").write(cfg_text)
    e = dict(os.environ)
    if env:
        e.update({k: str(v) for k, v in env.items()})
    cmd = ["java", "-XX:+UseParallelGC", "-Xmx" + heap, "-Xss1g"] + java_opts.split() + ["-cp", JAR, "tlc2.TLC",
           "-workers", str(workers), "-metadir", os.path.join(d, "states"), "-cleanup", "-noGenerateSpecTE",
           "-config", cfg] + (["-coverage", "1"] if coverage else []) + (extra or []) + [module + ".tla"]
    t0 = time.time()
    try:
        p = subprocess.run(cmd, cwd=SPEC, env=e, stdout=subprocess.PIPE, stderr=subprocess.STDOUT, text=True, timeout=timeout)
        out, rc, timed_out = p.stdout, p.returncode, False
    except subprocess.TimeoutExpired as ex:
        out, rc, timed_out = (ex.stdout or b"").decode() if isinstance(ex.stdout, bytes) else (ex.stdout or ""), -1, True
    open(os.path.join(d, "tlc.out"), "w").write(out)
    shutil.rmtree(os.path.join(d, "states"), ignore_errors=True)
    res = parse(out)
    res["raw"] = out
    res.update(rc=rc, timed_out=timed_out, wall=time.time() - t0, out_path=os.path.join(d, "tlc.out"), cmd=" ".join(cmd[cmd.index("tlc2.TLC"):]))
    return res


def parse(out):
    res = {"generated": 0, "distinct": 0, "depth": 0, "actions": {}, "violated": [], "errors": [], "prints": [],
           "deadlock": False, "finished": False}
    for m in re.finditer(r"(\d+) states generated, (\d+) distinct states found", out):
        res["generated"], res["distinct"] = int(m.group(1)), int(m.group(2))
    m = re.search(r"The depth of the complete state graph search is (\d+)", out)
    if m:
        res["depth"] = int(m.group(1))
    for m in re.finditer(r"^<(\w+) line \d+, col \d+ to line \d+, col \d+ of module (\w+)(?: \([\d ]+\))?>: (\d+):(\d+)", out, re.M):
        a = res["actions"].setdefault(m.group(1), [0, 0])
        a[0] += int(m.group(3))
        a[1] += int(m.group(4))
    for m in re.finditer(r"Invariant (\w+) is violated", out):
        res["violated"].append(m.group(1))
    for m in re.finditer(r"Action property (\w+) is violated", out):
        res["violated"].append(m.group(1))
    for m in re.finditer(r"Temporal properties were violated", out):
        res["violated"].append("temporal")
    for m in re.finditer(r"line \d+, col \d+ to line \d+, col \d+ of module (\w+)> is violated", out):
        res["violated"].append(m.group(1))
    if "Deadlock reached" in out:
        res["deadlock"] = True
    for m in re.finditer(r"^Error: (.*)$", out, re.M):
        res["errors"].append(m.group(1))
    for line in out.splitlines():
        if line.startswith("<<\"") or line.startswith("\""):
            res["prints"].append(line)
    res["finished"] = "Model checking completed" in out or "Finished in" in out
    res["postcondition_failed"] = "ostcondition" in out and "violated" in out
    return res


def model_check(module, cfg_text, tag, workers=8, timeout=900, required_actions=(), extra=None, heap="8g"):
    """Exhaustive (or -simulate via extra) TLC run. Raises ToolError if TLC itself failed or the run was vacuous."""
    r = _run(module, cfg_text, tag, workers, timeout, extra=extra, heap=heap)
    if r["timed_out"]:
        raise ToolError("TLC timed out on %s (%s)" % (module, tag))
    hard = [e for e in r["errors"] if "is violated" not in e and "Deadlock" not in e and "behavior up to this point" not in e.lower()
            and "Temporal properties" not in e]
    if hard and not r["violated"]:
        raise ToolError("TLC error on %s: %s (see %s)" % (module, hard[:3], r["out_path"]))
    missing = [a for a in required_actions if r["actions"].get(a, [0, 0])[0] == 0]
    r["vacuous_actions"] = missing
    return r


TRACE_JAVA = "-Dtlc2.tool.queue.IStateQueue=StateDeque"


def validate_trace(module, cfg_text, tag, trace_path, timeout=600, env=None, heap="4g"):
    """Trace validation. The trace spec follows the whole file (-continue): `bad` lists every line on
    which an enforced guard failed; `unmatched` is the first line no action of the spec explains."""
    e = {"TRACE": trace_path}
    if env:
        e.update(env)
    r = _run(module, cfg_text, tag, 1, timeout, env=e, java_opts=TRACE_JAVA, heap=heap, coverage=False,
             extra=[])
    if not tag.startswith("selftest"):
        # remembered for `./check selftest`, which re-runs this validation on corrupted copies of the trace
        os.makedirs(os.path.join(WORK, "calls"), exist_ok=True)
        json.dump({"module": module, "cfg": cfg_text, "trace": trace_path, "env": env or {}, "heap": heap},
                  open(os.path.join(WORK, "calls", tag + ".json"), "w"))
    r["bad"] = []
    for m in re.finditer(r'<<\s*"BAD",\s*(\{[^}]*\}),\s*(\d+)\s*>>', r.get("raw", "")):
        labels = re.findall(r'"([^"]+)"', m.group(1))
        r["bad"].append((int(m.group(2)), labels))
    m = re.search(r'<<\s*"UNMATCHED",\s*(\d+)', r.get("raw", ""))
    r["unmatched"] = int(m.group(1)) if m else None
    if r["timed_out"]:
        raise ToolError("TLC timed out validating %s" % trace_path)
    hard = [x for x in r["errors"] if "is violated" not in x and "ostcondition" not in x and "behavior up to this point" not in x.lower()
            and "The error occurred" not in x]
    r["accepted"] = r["finished"] and r["unmatched"] is None and not hard and "Accepted" not in str(r["violated"])
    r["clean"] = r["accepted"] and not r["bad"]
    r["hard_errors"] = hard
    return r


def replays(out_text):
    """Behaviours printed by a spec as <<"REPLAY", ToJson(..)>> (one per line or wrapped)."""
    res = []
    for m in re.finditer(r'<<\s*"REPLAY",\s*("(?:[^"\\]|\\.)*")\s*>>', out_text):
        res.append(json.loads(json.loads(m.group(1))))
    return res
