"""What C01, C02, C03, C05 and C07 share: AcmeFlow model checking + validation of per-certificate traces."""
from scenario import simple_cert
import json, os
import tlc, project, vcrypto
from common import fresh_dir, save_replay, ToolError, log
from daemon import standard_hooks

L01 = ["C01_OrderIds", "C01_CsrNames", "C01_CsrSubject", "C01_CsrDigest", "C01_CsrSelfSig", "C01_CsrKeyIsStoredKey", "C01_KeyReuse"]
L02 = ["C02_CertIsServedChain", "C02_KeyIsCsrKey"]
L03 = ["C03_PairOK", "C03_Untouched"]
L05 = ["C05_ConfiguredType", "C05_Proof", "C05_HooksBeforeReady", "C05_NoHookWhenValid", "C05_CleanSameData", "C05_PostsConfiguredType", "C05_SolvableIsSolved", "C10_CleanAfterValidation"]
L07 = ["C07_HookFailureFailsAttempt", "C07_ExactlyOnePostOp", "C07_SuccessIffInstalled", "C07_FailureCarriesError", "C07_PauseAfterFailure", "C07_Alive", "C07_PostOpReportsResult",
       "C07_HealthySucceeds"]
ALL = L01 + L02 + L03 + L05 + L07

MC_CFG = """SPECIFICATION MCSpec
CONSTANTS
  Enforce = %(enforce)s
  Deviations = %(dev)s
  MCIds <- %(ids)s
  MCReuse = %(reuse)s
INVARIANT %(inv)s
CHECK_DEADLOCK FALSE
"""
TRACE_CFG = """SPECIFICATION TSpec
CONSTANTS
  Enforce = %s
  Deviations = {}
  MCIds <- MCIdsTwo
  MCReuse = FALSE
POSTCONDITION Accepted
CHECK_DEADLOCK FALSE
"""
# deviation of the model -> labels its presence must violate (model sanity / what the model says about a defect)
DEVIATIONS = {"KeyWrittenBeforeFinalize": "C03", "CertWrittenUnparsed": "C03", "WildcardLookupStripsStar": "C05",
              "RequeueImmediately": "C07"}


def model_check(tag, prop):
    states = trans = 0
    runs = []
    for ids in ("MCIdsWild", "MCIdsWildRev", "MCIdsTwo"):
        for reuse in ("FALSE", "TRUE"):
            r = tlc.model_check("AcmeFlow", MC_CFG % dict(enforce=tlc.tla_set(ALL), dev="{}", ids=ids, reuse=reuse, inv="NoBad"),
                                "%s_mc" % tag, workers=4, timeout=900,
                                required_actions=["MCStart", "MCOrder", "MCAuthz", "MCHook", "MCPost", "MCClean", "MCKey", "MCFinalize",
                                                  "MCDownload", "MCInstall", "MCOk", "MCPostOp", "MCEnd", "MCFail", "MCSleepAfterFail"])
            if r["violated"]:
                raise ToolError("AcmeFlow: the ideal model violates %s (%s)" % (r["violated"], r["out_path"]))
            if r["vacuous_actions"]:
                raise ToolError("AcmeFlow: vacuous run, actions never taken: %s" % r["vacuous_actions"])
            states += r["distinct"]
            trans += r["generated"]
            runs.append({"ids": ids, "kp_reuse": reuse, "states": r["distinct"], "depth": r["depth"]})
    for w in ("W_SuccessReached", "W_FailAfterFinalize", "W_SecondAttempt"):
        r = tlc.model_check("AcmeFlow", MC_CFG % dict(enforce=tlc.tla_set(ALL), dev="{}", ids="MCIdsWild", reuse="FALSE", inv=w), "%s_w" % tag, workers=2)
        if not r["violated"]:
            raise ToolError("AcmeFlow: vacuity, witness %s unreachable" % w)
    devs = {}
    for d, p in DEVIATIONS.items():
        r = tlc.model_check("AcmeFlow", MC_CFG % dict(enforce=tlc.tla_set(ALL), dev='{"%s"}' % d, ids="MCIdsWild", reuse="FALSE", inv="NoBad"),
                            "%s_dev" % tag, workers=2)
        devs[d] = bool(r["violated"])
        if not r["violated"]:
            raise ToolError("AcmeFlow model sanity: deviation %s is not caught by NoBad" % d)
    return {"states": states, "transitions": trans, "configs": runs, "deviations_detected_by_model": devs}


def hook_types(hooks):
    af = lambda h: bool(h.get("allow_failure", False))
    m = {}
    for h in hooks:
        ts = h["type"]
        if any(t.startswith("challenge-") and t.endswith("-clean") for t in ts):
            m[h["name"]] = ("clean", [t for t in ts if t.startswith("challenge-")][0][len("challenge-"):-len("-clean")], af(h))
        elif any(t.startswith("challenge-") for t in ts):
            m[h["name"]] = ("chal", [t for t in ts if t.startswith("challenge-")][0][len("challenge-"):], af(h))
        elif "post-operation" in ts:
            m[h["name"]] = ("postop", None, af(h))
        else:
            m[h["name"]] = ("file", None, af(h))
    return m


def prepare(spec):
    """Adds what the flow projection needs to a scenario spec: VT_CERT tags, stripped TOML tables, flow info."""
    certs = spec["certs"]
    info = {}
    out = []
    for c in certs:
        cid = project.cert_id(c)
        info[cid] = project.flow_info(c)
        t = project.strip_canon(c)
        env = dict(t.get("env") or {})
        env["VT_CERT"] = cid
        t["env"] = env
        out.append(t)
    spec = dict(spec)
    spec["certs"] = out
    meta = dict(spec.get("meta") or {})
    meta["flow"] = info
    meta["hook_types"] = hook_types(spec.get("hooks") if spec.get("hooks") is not None else standard_hooks())
    spec["meta"] = meta
    return spec


def install_pair(cert_cfg, mode):
    """Step: put a certificate/key pair on disk before the daemon runs. mode: 'pair' | 'badkey' | 'mismatch' | 'othertype'
    (a consistent pair whose key is usable but not of the configured key_type, as after an edit of key_type with a file name format that does not
    mention it)."""
    def f(sc):
        vc = vcrypto.shared()
        cid = project.cert_id(cert_cfg)
        base = os.path.join(sc.world.certs, cid)
        kt = (cert_cfg.get("key_type") or "rsa2048")
        if mode == "othertype":
            kt = "ecdsa_p384" if not kt.startswith("ecdsa") else "rsa2048"
        ca = vc.must("make_ca", cn="pre-existing CA")
        dns = [i["dns"] for i in cert_cfg["identifiers"] if "dns" in i]
        ips = [i["ip"] for i in cert_cfg["identifiers"] if "ip" in i]
        leaf = vc.must("make_leaf", issuer_cert=ca["cert_pem"], issuer_key=ca["key_pem"], key_type=kt, dns=dns, ips=ips,
                       not_after_s={"fresh": 80 * 86400, "due20": 20 * 86400}.get(mode, -3600))
        key_pem = leaf["key_pem"]
        if mode == "badkey":
            open(base + ".pk.pem", "w").write("this is not a key\n")
        elif mode == "emptykey":
            open(base + ".pk.pem", "w").close()          # left behind by an interrupted write, or created by provisioning
        elif mode == "truncatedkey":
            open(base + ".pk.pem", "w").write(key_pem[: len(key_pem) // 2])
        else:
            if mode == "mismatch":
                key_pem = vc.must("gen_key", key_type=kt)["key_pem"]
            open(base + ".pk.pem", "w").write(key_pem)
            open(base + ".crt.pem", "w").write(leaf["cert_pem"])
        os.chmod(base + ".pk.pem", 0o600)
        kf = project.file_facts_from_disk(vc, base + ".pk.pem", "key")
        cf = project.file_facts_from_disk(vc, base + ".crt.pem", "cert")
        sc.tw.emit({"src": "drv", "ev": "Disk", "cert": cid, "key": kf, "crt": cf})
    return f


def prestate_specs(tag, kinds=("badkey", "emptykey", "truncatedkey", "othertype", "mismatch", "pair")):
    """Fault-free attempts (two in a row) over what the certificate's files hold beforehand x kp_reuse: a key file acmed cannot use,
    can use but not as configured, or a pair that does not belong together."""
    specs = []
    for pre in kinds:
        for reuse in (False, True):
            c = simple_cert("pre-%s-%d" % (pre, reuse), ids=[{"dns": "pre.example.org", "challenge": "http-01"}], kp_reuse=reuse)
            sp = prepare(dict(tag="%s/k%02d" % (tag, len(specs)), certs=[c], attempts=2,
                              meta={"family": "files present before a fault-free attempt", "pre": pre, "kp_reuse": reuse}))
            sp["steps"] = [("call", install_pair(sp["certs"][0], pre)), ("run", {})]
            specs.append(sp)
    return specs


def shorter_lived_specs(tag):
    """A pair is installed whose certificate is due but still has 20 days to live; the CA's new certificates live 7 days (a short-lived
    profile, or a notAfter capped by the issuer's): the new pair replaces the old one all the same."""
    specs = []
    for reuse in (False, True):
        for life in (7 * 86400, 20 * 86400 - 7200, 90 * 86400):
            c = simple_cert("short-%d-%d" % (reuse, life // 86400), ids=[{"dns": "short.example.org", "challenge": "http-01"}], kp_reuse=reuse)
            sp = prepare(dict(tag="%s/l%02d" % (tag, len(specs)), certs=[c], attempts=1, endpoints={"A": {"ca": {"cert_lifetime_s": life}}},
                              meta={"family": "new certificate ends before the installed one", "installed_days_left": 20, "new_lifetime_days": life // 86400, "kp_reuse": reuse}))
            sp["steps"] = [("call", install_pair(sp["certs"][0], "due20")), ("run", {})]
            specs.append(sp)
    return specs


def validate(tag, results, labels, hooks=None):
    vc = vcrypto.shared()
    ht = hook_types(hooks or standard_hooks())
    d = fresh_dir(tag)
    lines, owner = [], []
    absent_k = {"exists": False, "ok": False, "spki": "none", "sha": "none"}
    absent_c = {"exists": False, "ok": False, "leaf": "none", "sha": "none"}
    for i, r in enumerate(results):
        for cid, info in (r["meta"].get("flow") or {}).items():
            evs = project.flow_layer(r["events"], cid, info, vc, r["meta"].get("hook_types") or ht)
            lines.append({"e": "Reset", "ids": info["ids"], "kp_reuse": info["kp_reuse"], "subject": info["subject"],
                          "digest": info["digest"], "key": absent_k, "cert": absent_c,
                          "healthy": bool((r["meta"].get("healthy") or {}).get(cid, False))})
            owner.append(i)
            for e in evs:
                lines.append(e)
                owner.append(i)
    path = os.path.join(d, "flow.ndjson")
    with open(path, "w") as f:
        for e in lines:
            f.write(json.dumps(e) + "\n")
    r = tlc.validate_trace("Trace_AcmeFlow", TRACE_CFG % tlc.tla_set(labels), tag.replace("/", "_") + "_tv", path, timeout=1800, heap="8g")
    if r["hard_errors"]:
        raise ToolError("TLC failed on the flow trace: %s (%s)" % (r["hard_errors"][:2], r["out_path"]))
    if r["unmatched"] is not None:
        ln = r["unmatched"]
        raise ToolError("flow trace line %d (scenario %s) is not explained by Trace_AcmeFlow: %s" % (
            ln, results[owner[ln - 1]]["meta"] if ln <= len(lines) else "?", lines[ln - 1] if ln <= len(lines) else "end"))
    bad = [(owner[ln - 1], labs, lines[ln - 1]) for ln, labs in r["bad"]]
    stats = {"events": len(lines), "runs": len(results), "tlc_states": r["distinct"], "wall": round(r["wall"], 1)}
    return bad, stats, path


def report(ctx, pid, results, bad, key_fn=None, limit=25):
    """Turns bad lines into violations (one per scenario and label set); key_fn maps (result, labels, event) to a
    known-finding id or None."""
    seen = set()
    for idx, labs, ev in bad:
        r = results[idx]
        k = (idx, tuple(labs))
        if k in seen:
            continue
        seen.add(k)
        key = key_fn(r, labs, ev) if key_fn else None
        rp = save_replay(pid, os.path.basename(r["tag"]), {
            "scenario.json": {k2: v for k2, v in r["meta"].items()}, "trace.ndjson": os.path.join(r["world"], "trace.ndjson"),
            "violated.json": {"labels": labs, "event": ev}})
        short = {k2: v for k2, v in r["meta"].items() if k2 not in ("flow", "hook_types")}
        ctx.verdict.violation("guards %s failed in scenario %s at %s" % (labs, short, json.dumps(ev)[:300]), rp, key=key)
