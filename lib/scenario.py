"""Runs one scenario: mock CA(s) + generated configuration + the real daemon; returns the raw trace."""
import json, os, shutil, hashlib
from common import fresh_dir, read_trace, ToolError, WORK
from daemon import World, standard_hooks, rec_hook, toml_dumps
from mockca import MockCA, TraceWriter
import vcrypto


class Scenario:
    """
    endpoints: {name: {"ca": {MockCA options}, "script": [fault rules], "rate_limits": [names]}}
    accounts:  [{"name":..., "contacts": [...], ...}]
    certs:     [{"name"?, "account", "endpoint", "identifiers": [...], ...}]  (acmed [[certificate]] tables)
    """

    def __init__(self, tag, endpoints=None, accounts=None, certs=None, hooks=None, groups=None, global_opts=None,
                 rate_limits=None, attempts=1, cert_hooks=None, account_hooks=None, env=None, timeout=120,
                 include=None, keep_world=None, cfg_mutator=None, extra_files=None):
        self.tag = tag
        self.endpoints = endpoints or {"A": {}}
        self.accounts = accounts or [{"name": "acc1", "contacts": [{"mailto": "acc1@example.org"}]}]
        self.certs = certs
        self.hooks = hooks if hooks is not None else standard_hooks()
        self.groups = groups or []
        self.global_opts = global_opts or {}
        self.rate_limits = rate_limits or []
        self.attempts = attempts
        self.cert_hooks = cert_hooks
        self.account_hooks = account_hooks
        self.env = env or {}
        self.timeout = timeout
        self.include = include
        self.cfg_mutator = cfg_mutator
        self.extra_files = extra_files
        self.world = keep_world
        self.cas = {}

    def setup(self):
        vc = vcrypto.shared()
        if self.world is None:
            self.world = World(fresh_dir(*self.tag.split("/")))
        self.tw = TraceWriter(self.world.trace)
        for name, spec in self.endpoints.items():
            if name not in self.cas:
                ca = MockCA(name, self.tw, vc, **(spec.get("ca") or {}))
                ca.script = list(spec.get("script") or [])
                self.cas[name] = ca
        return self

    def config(self):
        hook_names = [h["name"] for h in self.hooks]
        cfg = {}
        if self.include:
            cfg["include"] = self.include
        cfg["global"] = dict(self.global_opts)
        cfg["endpoint"] = []
        for name, spec in self.endpoints.items():
            ep = {"name": name, "url": spec.get("url") or self.cas[name].url, "tos_agreed": True}
            for k in ("rate_limits", "root_certificates", "renew_delay", "random_early_renew", "file_name_format"):
                if k in spec:
                    ep[k] = spec[k]
            cfg["endpoint"].append(ep)
        if self.rate_limits:
            cfg["rate-limit"] = self.rate_limits
        cfg["hook"] = self.hooks
        if self.groups:
            cfg["group"] = self.groups
        accs = []
        for a in self.accounts:
            a = dict(a)
            if self.account_hooks is not None:
                a.setdefault("hooks", self.account_hooks)
            accs.append(a)
        cfg["account"] = accs
        certs = []
        for c in self.certs:
            c = dict(c)
            c.setdefault("hooks", self.cert_hooks if self.cert_hooks is not None else hook_names)
            certs.append(c)
        cfg["certificate"] = certs
        return cfg

    def run(self, attempts=None, env=None, root_certs=(), umask=None):
        cfg = self.config()
        if self.cfg_mutator:
            cfg = self.cfg_mutator(cfg, self)
        if isinstance(cfg, str):
            g = "accounts_directory = %r\ncertificates_directory = %r\n" % (self.world.accounts, self.world.certs)
            open(self.world.conf, "w").write(cfg.replace("@GLOBAL_DIRS@", g.replace("'", '"')).replace("@ROOT@", self.world.root))
        else:
            self.world.write_config(self.rewritten(cfg))
        for name, text in (self.extra_files or {}).items():
            open(os.path.join(self.world.root, name), "w").write(text.replace("@ROOT@", self.world.root))
        e = dict(self.env)
        if env:
            e.update(env)
        self.tw.emit({"src": "drv", "ev": "DaemonStart", "tag": self.tag})
        r = self.world.run(max_attempts=attempts or self.attempts, timeout=self.timeout, env=e, root_certs=root_certs, umask=umask)
        self.tw.emit({"src": "drv", "ev": "DaemonEnd", "rc": r["rc"], "hung": r["hung"]})
        return r

    def rewritten(self, cfg):
        """Configuration "dialects": the same configuration written another, equivalent way (chosen by the scenario's tag) - every list
        section in a file of its own pulled in by a glob, or each certificate's hook list wrapped in a group.  Scenarios that mutate the
        configuration themselves, include files or produce raw text are left as they are."""
        import zlib, copy
        if self.cfg_mutator or self.include or self.extra_files or os.environ.get("VERIF_NO_DIALECT") or "include" in cfg:
            return cfg
        k = zlib.crc32(("cfg" + self.tag).encode()) % 4
        cfg = copy.deepcopy(cfg)
        if k == 1:
            d = os.path.join(self.world.root, "conf.d")
            os.makedirs(d, exist_ok=True)
            for f in os.listdir(d):
                os.unlink(os.path.join(d, f))
            n = 0
            for sec in [s for s, v in cfg.items() if isinstance(v, list) and v and isinstance(v[0], dict)]:
                for table in cfg.pop(sec):
                    open(os.path.join(d, "%03d-%s.toml" % (n, sec)), "w").write(toml_dumps({sec: [table]}))
                    n += 1
            cfg["include"] = ["conf.d/*.toml"]
        elif k == 2:
            groups = list(cfg.get("group") or [])
            for i, c in enumerate(cfg.get("certificate") or []):
                if len(c.get("hooks") or []) >= 2:
                    groups.append({"name": "all-hooks-of-%d" % i, "hooks": list(c["hooks"])})
                    c["hooks"] = ["all-hooks-of-%d" % i]
            if groups:
                cfg["group"] = groups
        return cfg

    def events(self):
        return read_trace(self.world.trace)

    def close(self):
        for ca in self.cas.values():
            ca.stop()
        self.tw.close()


def simple_cert(name="c1", ids=None, key_type="ecdsa_p256", account="acc1", endpoint="A", **kw):
    ids = ids or [{"dns": "%s.example.org" % name, "challenge": "http-01"}]
    c = {"name": name, "account": account, "endpoint": endpoint, "key_type": key_type, "identifiers": ids}
    c.update(kw)
    return c
