"""C01 - order and CSR carry exactly the configured identifiers and the stored key."""
import random
import flows, flowcheck
from common import ToolError
from scenario import simple_cert

NEEDS = ["acmed"]
KEY_TYPES = ["rsa2048", "rsa4096", "ecdsa_p256", "ecdsa_p384", "ecdsa_p521", "ed25519", "ed448"]
DIGESTS = ["sha256", "sha384", "sha512"]
ATTRS = {"country_name": "FR", "generation_qualifier": "III", "given_name": "Ada", "initials": "AL", "locality_name": "Paris",
         "name": "Ada L", "organization_name": "Example Org", "organizational_unit_name": "Unit 7",
         "pkcs9_email_address": "ada@example.org", "postal_address": "1 rue X", "postal_code": "75001",
         "state_or_province_name": "IdF", "street": "rue X", "surname": "Lovelace", "title": "Dr"}
U_LABELS = ["bücher", "café", "сайт", "日本語", "ñandú", "παράδειγμα", "müller-straße"[:6], "ü"]


def a_label(u):
    return "xn--" + u.lower().encode("punycode").decode()


def dns_pool():
    """(canonical A-label name, [accepted textual variants])"""
    pool = []
    for n in ["example.org", "www.example.org", "a.b.c.example.net", "x1.example.com", "host-7.example.org"]:
        pool.append((n, [n, n.upper(), n.title(), n.replace("example", "ExAmPlE")]))
    for u in U_LABELS:
        a = a_label(u)
        for tld in ("example", "example.org"):
            canon = "%s.%s" % (a, tld)
            pool.append((canon, [canon, "%s.%s" % (u, tld), "%s.%s" % (u.upper(), tld.upper()), a.upper() + "." + tld]))
    w = []
    for canon, vs in pool[:8]:
        w.append(("*." + canon, ["*." + v for v in vs]))
    return pool + w


IP_POOL = [("203.0.113.7", ["203.0.113.7"]), ("10.0.0.1", ["10.0.0.1"]),
           ("2001:db8::1", ["2001:db8::1", "2001:DB8::1", "2001:0db8:0000:0000:0000:0000:0000:0001", "2001:db8:0:0:0:0:0:1"]),
           ("::1", ["::1", "0:0:0:0:0:0:0:1", "0000:0000:0000:0000:0000:0000:0000:0001"]),
           ("fe80::1:2", ["fe80::1:2", "FE80::1:2", "fe80:0:0:0:0:0:1:2"]),
           ("2001:db8:1:2:3:4:5:6", ["2001:db8:1:2:3:4:5:6", "2001:0DB8:0001:0002:0003:0004:0005:0006"]),
           # special-purpose ranges: an IPv4 address embedded in an IPv6 one is still that IPv6 address (16 bytes in the CSR)
           ("::ffff:192.0.2.1", ["::ffff:192.0.2.1", "::FFFF:c000:201", "0:0:0:0:0:ffff:192.0.2.1"]),
           ("::ffff:10.0.0.1", ["::ffff:10.0.0.1", "::ffff:a00:1"]),
           ("::c000:201", ["::192.0.2.1", "::c000:201"]),
           ("64:ff9b::c000:201", ["64:ff9b::192.0.2.1", "64:FF9B::C000:201"]),
           ("2002:c000:201::", ["2002:c000:201::", "2002:c000:201:0:0:0:0:0"]),
           ("192.0.2.1", ["192.0.2.1"])]


def ident_set(rng, n):
    pool = dns_pool()
    ids, used = [], set()
    while len(ids) < n:
        if rng.random() < 0.25:
            canon, vs = rng.choice(IP_POOL)
            if canon in used:
                continue
            used.add(canon)
            ids.append({"ip": rng.choice(vs), "canon": canon, "challenge": rng.choice(["http-01", "tls-alpn-01"])})
        else:
            canon, vs = rng.choice(pool)
            if canon in used:
                continue
            used.add(canon)
            ch = "dns-01" if canon.startswith("*.") else rng.choice(["http-01", "dns-01", "tls-alpn-01"])
            ids.append({"dns": rng.choice(vs), "canon": canon, "challenge": ch})
    return ids


def specs_for(tier, seed):
    rng = random.Random(seed)
    specs = []

    def add(cert, pre="none", meta=None, attempts=1, script=None):
        sp = dict(tag="C01/s%04d" % len(specs), certs=[cert], attempts=attempts, meta=dict(meta or {}, pre=pre))
        if script:
            sp["endpoints"] = {"A": {"script": script}}
        steps = []
        if pre != "none":
            steps.append(("call", flowcheck.install_pair({k: (v if k != "identifiers" else [{kk: vv for kk, vv in i.items() if kk != "canon"} for i in v]) for k, v in cert.items()}, pre)))
        steps.append(("run", {}))
        sp["steps"] = steps
        specs.append(flowcheck.prepare(sp))

    n_sets = 60 if tier == "thorough" else 14
    for i in range(n_sets):
        n = 1 + (i % 8)
        add(simple_cert("set%d" % i, ids=ident_set(rng, n), key_type="ecdsa_p256"), meta={"family": "identifier set", "n": n})
    # a wildcard together with names it "covers" (apex, one label below, two labels below, an IDN sibling): every configured name is
    # in the order and in the CSR, whatever a CA might think of the redundancy
    zone = "wild.example.org"
    for k, names in enumerate(([("*." + zone), zone, "www." + zone, "a.b." + zone],
                               ["WWW." + zone.title(), "*." + zone.upper(), "b\u00fccher." + zone],
                               ["*." + zone, "www." + zone])):
        canon = lambda n: ".".join((a_label(l) if any(ord(ch) > 127 for ch in l) else l.lower()) for l in n.split("."))
        ids = [{"dns": n, "canon": canon(n), "challenge": "dns-01" if n.startswith("*") else "http-01"} for n in names]
        add(simple_cert("wild%d" % k, ids=ids, key_type="ecdsa_p256"), meta={"family": "wildcard with names it covers", "names": names})
    # every IP of the table in one certificate, once per written variant (IPv4 next to the IPv6 addresses that embed it)
    for k in range(4 if tier == "thorough" else 2):
        v = k if tier == "thorough" else (k * 2 + seed) % 4
        ids = [{"dns": "ips.example.org", "canon": "ips.example.org", "challenge": "http-01"}]
        ids += [{"ip": vs[v % len(vs)], "canon": canon, "challenge": "http-01" if (i + v) % 2 else "tls-alpn-01"} for i, (canon, vs) in enumerate(IP_POOL)]
        add(simple_cert("ipforms%d" % k, ids=ids, key_type="ecdsa_p256"), meta={"family": "every IP form", "variant": v})
    for kt in KEY_TYPES:
        for dg in (DIGESTS if tier == "thorough" or kt in ("ecdsa_p256", "rsa2048") else [DIGESTS[KEY_TYPES.index(kt) % 3]]):
            add(simple_cert("k-%s-%s" % (kt.replace("_", ""), dg), ids=ident_set(rng, 2), key_type=kt, csr_digest=dg),
                meta={"family": "key type x digest", "key_type": kt, "digest": dg})
    for a in ATTRS:
        add(simple_cert("attr-%s" % a.replace("_", ""), ids=ident_set(rng, 1), subject_attributes={a: ATTRS[a]}), meta={"family": "one attribute", "attr": a})
    add(simple_cert("attr-all", ids=ident_set(rng, 2), subject_attributes=dict(ATTRS)), meta={"family": "all attributes"})
    for i in range(40 if tier == "thorough" else 6):
        sub = {a: ATTRS[a] for a in ATTRS if rng.random() < 0.4}
        add(simple_cert("attr-r%d" % i, ids=ident_set(rng, 2), subject_attributes=sub), meta={"family": "attribute subset", "attrs": sorted(sub)})
    # a CA that refuses the order (once, or every time) because of what it lists: whatever the daemon does next, an order it sends
    # lists the configured identifiers - it does not negotiate them down to what the CA would take
    mixed = [{"dns": "m1.example.org", "canon": "m1.example.org", "challenge": "http-01"}, {"ip": "192.0.2.77", "canon": "192.0.2.77", "challenge": "http-01"},
             {"dns": "*.m2.example.org", "canon": "*.m2.example.org", "challenge": "dns-01"}, {"ip": "2001:db8::77", "canon": "2001:db8::77", "challenge": "tls-alpn-01"}]
    errs = ["unsupportedIdentifier", "rejectedIdentifier", "malformed", "caa", "dns", "unauthorized", "rateLimited", "serverInternal"]
    if tier != "thorough":
        errs = errs[:3] + [errs[3 + seed % 5]]
    for k, err in enumerate(errs):
        for rep in (1, 50):
            for ids in (mixed, mixed[:2], [mixed[0], mixed[2]]):
                add(simple_cert("ref%d" % len(specs), ids=ids, key_type="ecdsa_p256"), attempts=2,
                    script=[{"kind": "newOrder", "nth": 1, "repeat": rep, "fault": "acme:%s:%d" % (err, 400 if err != "serverInternal" else 500)}],
                    meta={"family": "CA refuses the order", "error": err, "times": rep, "n": len(ids)})
    for reuse in (False, True):
        for pre in ("none", "pair", "badkey", "othertype"):
            for kt in (KEY_TYPES if tier == "thorough" else ["ecdsa_p256", "rsa2048", "ed25519"]):
                add(simple_cert("r-%s-%s-%s" % (reuse, pre, kt.replace("_", "")), ids=ident_set(rng, 2), key_type=kt, kp_reuse=reuse), pre=pre,
                    meta={"family": "kp_reuse x key file", "kp_reuse": reuse, "key_type": kt}, attempts=2)
    return specs


def run(ctx):
    mc = flowcheck.model_check("C01", ctx.tier)
    specs = specs_for(ctx.tier, ctx.seed)
    results = flows.run_many(specs, workers=12)
    for r in results:
        if any(x["hung"] for x in r["runs"]):
            raise ToolError("daemon hung in %s" % r["meta"])
    bad, stats, path = flowcheck.validate("C01/tv", results, flowcheck.L01)
    flowcheck.report(ctx, "C01", results, bad)
    # a configuration the daemon refuses, or an order the strict CA refuses, means the comparison never happened: count them
    judged_orders = sum(1 for r in results for e in r["events"] if e.get("ev") == "CaReq" and e.get("kind") == "newOrder")
    judged_csrs = sum(1 for r in results for e in r["events"] if e.get("ev") == "CaReq" and e.get("kind") == "finalize" and (e.get("detail") or {}).get("csr"))
    ok_attempts = sum(1 for r in results for e in r["events"] if e.get("ev") == "AttemptEnd" and e.get("is_success"))
    no_success = [{k: v for k, v in r["meta"].items() if k not in ("flow", "hook_types")} for r in results
                  if not any(e.get("ev") == "AttemptEnd" and e.get("is_success") for e in r["events"])
                  and not (r["meta"].get("family") == "CA refuses the order" and r["meta"].get("times", 0) > 2)]
    if no_success:
        # every other C01 scenario is fault-free (and a CA that refuses the order once takes it the second time): an issuance that does not go through is a divergence between harness and daemon
        for m in no_success[:3]:
            ctx.verdict.violation("fault-free issuance did not succeed (identifiers/CSR refused?): %s" % m, "/verif/work/C01")
    fb, fstats, _ = flowcheck.validate("C01/fid", results, flowcheck.ALL)
    cov = {"states": mc["states"], "transitions": mc["transitions"], "traces_validated_against_impl": len(results),
           "samples": [dict({k: v for k, v in r["meta"].items() if k not in ("flow", "hook_types")}, ids=r["meta"]["flow"]) for r in results[:3]],
           "model": mc, "trace_validation": stats, "orders_judged": judged_orders, "csrs_judged": judged_csrs,
           "successful_attempts": ok_attempts,
           "model_fidelity": {"all_labels_clean": not fb, "bad": [({k: v for k, v in results[i]["meta"].items() if k not in ("flow", "hook_types")}, l) for i, l, _ in fb[:5]]},
           "exhaustive": False,
           "rule": "identifier sets of 1..8 entries drawn from canonical forms (A-labels from python's punycode codec, wildcards, IPv4, IPv6) and written "
                   "in accepted variants (case, U-labels, expanded/upper-case IPv6); a wildcard together with names it covers; every IP of the table (IPv4, IPv4-mapped/-compatible, NAT64, 6to4, "
                   "loopback, link-local) together in one certificate per variant; 7 key types x digests; each subject attribute alone, all 15, random "
                   "subsets; kp_reuse x {no key, usable key, unusable key, usable key of another type than configured}"}
    return {"coverage": cov, "assumptions": [
        "punycode correctness is only exercised for the labels of the table (encode fidelity beyond it is not what a state machine decides)",
        "the CA-side CSR parse (OpenSSL via vcrypto) is the oracle for SAN, subject, digest and self-signature"]}
