"""C13 - private keys and account files are created with the configured mode and owner."""
import json, os, random
import flows, flowcheck, storagecheck as sc
from common import ToolError, save_replay
from daemon import standard_hooks, Raw, toml_dumps
from scenario import simple_cert

NEEDS = ["acmed"]


def daemon_specs(tier, seed):
    rng = random.Random(seed)
    specs = []
    file_hooks = [h["name"] for h in standard_hooks() if h["name"].startswith("file-")]
    grid = []
    for pk, crt in ((None, None), (0o640, 0o600), (0o400, 0o644), (0o666, 0o666), (0o600, 0o444)):
        for um in (0o022, 0o077, 0o000, 0o027):
            # numbers need no entry in the user/group database (containers, NFS and directory-service ids): 54321/54322 have none here
            for who in (None, ("1", "1"), ("daemon", "daemon"), ("65534", "nogroup"), ("nobody", "65534"), ("54321", "54322"), ("daemon", "54322"), ("54321", "daemon")):
                grid.append((pk, crt, um, who))
    if tier != "thorough":
        grid = rng.sample(grid, 14) + [(None, None, 0o022, None), (0o640, 0o600, 0o000, ("nobody", "nogroup")), (None, None, 0o022, ("54321", "54322")),
                                       (0o640, 0o644, 0o027, ("daemon", "54322"))]
    import pwd, grp
    for (pk, crt, um, who) in grid:
        g = {}
        if pk is not None:
            g["pk_file_mode"] = Raw("0o%o" % pk)
        if crt is not None:
            g["cert_file_mode"] = Raw("0o%o" % crt)
        uids = {"account": -1, "pk": -1, "crt": -1}
        gids = dict(uids)
        if who:
            g["pk_file_user"], g["pk_file_group"] = who
            g["cert_file_user"], g["cert_file_group"] = who[1] if who[1].isdigit() else who[0], who[1]
            uid = int(who[0]) if who[0].isdigit() else pwd.getpwnam(who[0]).pw_uid
            gid = int(who[1]) if who[1].isdigit() else grp.getgrnam(who[1]).gr_gid
            cu = g["cert_file_user"]
            cuid = int(cu) if cu.isdigit() else pwd.getpwnam(cu).pw_uid
            uids = {"account": -1, "pk": uid, "crt": cuid}
            gids = {"account": -1, "pk": gid, "crt": gid}
        c = simple_cert("m%d" % len(specs))
        meta = {"family": "daemon files", "pk_mode": pk, "cert_mode": crt, "umask": um, "owner": who,
                "storage": {"modes": {"account": 0o600, "pk": pk if pk is not None else 0o600, "crt": crt if crt is not None else 0o644},
                            "uids": uids, "gids": gids, "umask": um}}
        specs.append(flowcheck.prepare(dict(tag="C13/s%03d" % len(specs), certs=[c], global_opts=g, account_hooks=file_hooks,
                                            steps=[("run", {"attempts": 2, "umask": um})], meta=meta)))
    # a file-pre-edit hook that moves the old file out of the way (the usual backup hook): the rewrite then creates the file afresh - with
    # the configured mode all the same
    for um, pk, crt in ((0o022, None, 0o600), (0o027, None, None), (0o022, 0o640, 0o640)):
        hooks = standard_hooks() + [{"name": "backup", "type": ["file-pre-edit"], "cmd": "mv", "args": ["{{ file_path }}", "{{ file_path }}.bak"]}]
        g = {}
        if pk is not None:
            g["pk_file_mode"] = Raw("0o%o" % pk)
        if crt is not None:
            g["cert_file_mode"] = Raw("0o%o" % crt)
        meta = {"family": "daemon files, pre-edit hook moves the file away", "umask": um,
                "storage": {"modes": {"account": 0o600, "pk": pk if pk is not None else 0o600, "crt": crt if crt is not None else 0o644},
                            "uids": {"account": -1, "pk": -1, "crt": -1}, "gids": {"account": -1, "pk": -1, "crt": -1}, "umask": um}}
        c = simple_cert("mv%d" % len(specs))
        specs.append(flowcheck.prepare(dict(tag="C13/s%03d" % len(specs), certs=[c], global_opts=g, hooks=hooks, account_hooks=file_hooks + ["backup"],
                                            steps=[("run", {"attempts": 2, "umask": um}), ("run", {"attempts": 1, "umask": um})], meta=meta)))
    # the mode options given in the main file and overridden by included files (the last file that sets an option decides): what
    # the administrator asked for is what the merged configuration says
    for k, (main_pk, main_crt, a_pk, a_crt, b_pk, b_crt, um) in enumerate(((0o644, 0o644, 0o600, 0o640, None, None, 0o022),
                                                                            (None, None, 0o644, 0o644, 0o600, 0o600, 0o022),
                                                                            (0o640, 0o644, None, None, 0o600, None, 0o027))):
        def tab(pk, crt):
            t = {}
            if pk is not None:
                t["pk_file_mode"] = Raw("0o%o" % pk)
            if crt is not None:
                t["cert_file_mode"] = Raw("0o%o" % crt)
            return t
        eff_pk = [x for x in (main_pk, a_pk, b_pk) if x is not None][-1]
        eff_crt = [x for x in (main_crt, a_crt, b_crt) if x is not None][-1]
        files = {}
        for name, t in (("conf.d/10-site.toml", tab(a_pk, a_crt)), ("conf.d/20-host.toml", tab(b_pk, b_crt))):
            files[name] = toml_dumps({"global": t}) if t else "# nothing here\n"
        c = simple_cert("i%d" % len(specs))
        meta = {"family": "daemon files, modes overridden by included files", "umask": um, "effective": ["0o%o" % eff_pk, "0o%o" % eff_crt],
                "storage": {"modes": {"account": 0o600, "pk": eff_pk, "crt": eff_crt}, "uids": {"account": -1, "pk": -1, "crt": -1},
                            "gids": {"account": -1, "pk": -1, "crt": -1}, "umask": um}}
        specs.append(flowcheck.prepare(dict(tag="C13/s%03d" % len(specs), certs=[c], global_opts=tab(main_pk, main_crt), account_hooks=file_hooks,
                                            include=["conf.d/*.toml"], extra_files=files,
                                            steps=[("call", lambda s: os.makedirs(os.path.join(s.world.root, "conf.d"), exist_ok=True)), ("run", {"attempts": 2, "umask": um})],
                                            meta=meta)))
    return specs


def run(ctx):
    r, reps = sc.model("C13_mc", "modes", 2, [1])
    if ctx.tier != "thorough":
        rng = random.Random(ctx.seed)
        keep = [b for i, b in enumerate(reps) if (i + ctx.seed) % 9 == 0]
        reps_run = keep
    else:
        reps_run = reps
    bad, rstats, path = sc.replay_and_validate("C13/replay", reps_run, sc.L13)
    for idx, labs, ev in bad[:10]:
        rp = save_replay("C13", "grid%05d" % idx, {"behaviour.json": reps_run[idx], "violated.json": {"labels": labs, "event": ev}})
        ctx.verdict.violation("configuration %s: %s at %s" % (json.dumps(reps_run[idx]["cfg"]), labs, json.dumps(ev)[:300]), rp)
    specs = daemon_specs(ctx.tier, ctx.seed)
    results = flows.run_many(specs, workers=12)
    for x in results:
        if any(y["hung"] for y in x["runs"]):
            raise ToolError("daemon hung in %s" % x["meta"].get("family"))
    groups = []
    for i, x in enumerate(results):
        st = x["meta"]["storage"]
        groups.append((i, sc.daemon_write_events(x, st["modes"], st["uids"], st["gids"], st["umask"])))
    dbad, dstats, dpath = sc.validate_events("C13/daemon", groups, sc.L13)
    seen = set()
    for i, labs, ev in dbad:
        if i in seen:
            continue
        seen.add(i)
        x = results[i]
        rp = save_replay("C13", os.path.basename(x["tag"]), {"scenario.json": {k: v for k, v in x["meta"].items() if k not in ("flow", "hook_types")},
                                                            "trace.ndjson": os.path.join(x["world"], "trace.ndjson"), "violated.json": {"labels": labs, "event": ev}})
        ctx.verdict.violation("daemon-created file has the wrong mode/owner: %s in %s" % (json.dumps(ev)[:300], {k: x["meta"].get(k) for k in ("family", "pk_mode", "cert_mode", "effective", "umask", "owner")}), rp)
    cov = {"states": r["distinct"], "transitions": r["generated"], "traces_validated_against_impl": len(reps_run) + len(results),
           "samples": [reps_run[0], reps_run[-1], {k: results[0]["meta"][k] for k in ("pk_mode", "cert_mode", "umask", "owner")}],
           "grid_states_in_model": len(reps), "grid_states_replayed": len(reps_run), "replay": rstats, "daemon_writes": dstats,
           "exhaustive": ctx.tier == "thorough",
           "rule": "TLC enumerates file type x {new, existing 0600, existing 0666} x pk/cert mode (5x5) x umask (4) x user (3) x group (3), a creation followed by a "
                   "rewrite; thorough replays all of them through the real write_file in a child with that umask (owners alternately by number and by name), "
                   "quick every 9th; plus daemon runs with global mode/owner options and process umasks, files observed by the file-post hooks."}
    return {"coverage": cov, "assumptions": [
        "the sandbox runs as root, so chown to other ids succeeds; names are resolved through /etc/passwd and /etc/group",
        "an unknown user or group name leaves the owner unchanged in the code (User::from_name -> None); that case is outside the property and not enumerated"]}
