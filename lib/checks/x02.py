"""X02 (not a listed property) - the scheduler: one round at a time per certificate, the back-off table after scheduling errors,
sleeping exactly what was scheduled, the pause after a failed request, nobody starved."""
import json, os
import tlc, flows, flowcheck
from common import fresh_dir, ToolError, save_replay
from scenario import simple_cert

NEEDS = ["acmed"]
LABELS = ["X02_OneRoundAtATime", "X02_BackoffTable", "X02_SleepsAsScheduled", "X02_RequestOnlyWhenDue", "X02_ReportMatches",
          "X02_PauseAfterFailure", "X02_NoPauseAfterSuccess"]
MC_CFG = """SPECIFICATION MCSpec
CONSTANTS
  Enforce = %s
  Deviations = %s
  Certs = %s
  MaxErrs = 5
INVARIANTS NoBad ErrsBounded
%s
CHECK_DEADLOCK TRUE
"""
TRACE_CFG = """SPECIFICATION TSpec
CONSTANTS
  Enforce = %s
  Deviations = {}
  Certs = {}
  MaxErrs = 0
POSTCONDITION Accepted
CHECK_DEADLOCK FALSE
"""


def garbage_certificate(cert):
    """Step: a certificate file that does not parse (and a key file) where the daemon will look: schedule_renewal fails."""
    import project

    def f(sc):
        base = os.path.join(sc.world.certs, project.cert_id(cert))
        open(base + ".crt.pem", "w").write("-----BEGIN CERTIFICATE-----\nnot base64 at all\n-----END CERTIFICATE-----\n")
        open(base + ".pk.pem", "w").write("not a key either\n")
    return f


def layer(events):
    out = []
    for e in events:
        if e.get("src") != "acmed":
            continue
        ev, c = e.get("ev"), e.get("cert")
        if ev == "Run":
            out.append({"e": "Reset"})
        elif not c:
            continue
        elif ev in ("AttemptStart", "SchedErr", "ReqStart"):
            out.append({"e": ev, "c": c})
        elif ev == "Scheduled":
            out.append({"e": ev, "c": c, "s": int(e["ms"]) // 1000})
        elif ev == "Sleep":
            out.append({"e": ev, "c": c, "kind": e.get("kind", "other"), "s": int(e["ms"]) // 1000})
        elif ev in ("ReqEnd", "AttemptEnd"):
            out.append({"e": ev, "c": c, "ok": bool(e.get("is_success"))})
    return out


def run(ctx):
    certs3 = '{"a", "b", "c"}' if ctx.tier == "thorough" else '{"a", "b"}'
    r = tlc.model_check("MainLoop", MC_CFG % (tlc.tla_set(LABELS), "{}", certs3, "PROPERTIES EveryoneServed"), "X02_mc", workers=8, timeout=3000, heap="12g",
                        required_actions=["MCNext"])
    if r["violated"] or r["deadlock"]:
        raise ToolError("MainLoop: the model violates %s deadlock=%s (%s)" % (r["violated"], r["deadlock"], r["out_path"]))
    for dev in ("NoPauseAfterFailure", "BackoffNeverGrows"):
        rd = tlc.model_check("MainLoop", MC_CFG % (tlc.tla_set(LABELS), '{"%s"}' % dev, '{"a"}', ""), "X02_dev", workers=2, timeout=300)
        if not rd["violated"]:
            raise ToolError("MainLoop model sanity: deviation %s is not caught" % dev)
    specs = []
    for n_sched_errs in (2, 6):
        ok = simple_cert("ok%d" % n_sched_errs)
        failing = simple_cert("ko%d" % n_sched_errs, ids=[{"dns": "ko%d.example.org" % n_sched_errs, "challenge": "http-01"}])
        broken = simple_cert("sch%d" % n_sched_errs)
        sp = dict(tag="X02/s%d" % len(specs), certs=[ok, failing, broken], attempts=3, env={"ACMED_VERIF_MAX_SCHED_ERRORS": str(n_sched_errs)},
                  endpoints={"A": {"ca": {"authz_status": {"ko%d.example.org" % n_sched_errs: "invalid"}}}},
                  meta={"family": "healthy + failing + unschedulable certificate", "scheduling_errors_allowed": n_sched_errs})
        sp = flowcheck.prepare(sp)
        sp["steps"] = [("call", garbage_certificate(sp["certs"][2])), ("run", {})]
        specs.append(sp)
    # a long-lived certificate already installed: the wait is the scheduled one (seconds beyond TLC's milliseconds)
    c = simple_cert("fresh")
    sp = flowcheck.prepare(dict(tag="X02/s%d" % len(specs), certs=[c], attempts=2, meta={"family": "installed certificate, two rounds"}))
    sp["steps"] = [("call", flowcheck.install_pair(sp["certs"][0], "fresh")), ("run", {})]
    specs.append(sp)
    results = flows.run_many(specs, workers=3)
    lines, owner = [], []
    for i, x in enumerate(results):
        if any(y["hung"] for y in x["runs"]):
            raise ToolError("daemon hung in %s" % x["meta"])
        for e in layer(x["events"]):
            lines.append(e)
            owner.append(i)
    root = fresh_dir("X02", "tv")
    path = os.path.join(root, "mainloop.ndjson")
    open(path, "w").write("".join(json.dumps(e) + "\n" for e in lines))
    tv = tlc.validate_trace("Trace_MainLoop", TRACE_CFG % tlc.tla_set(LABELS), "X02_tv", path, timeout=600)
    if tv["hard_errors"] or tv["unmatched"] is not None:
        raise ToolError("TLC failed on the scheduler trace: %s unmatched=%s %s (%s)" % (tv["hard_errors"][:2], tv["unmatched"],
                        lines[tv["unmatched"] - 1] if tv["unmatched"] else "", tv["out_path"]))
    for ln, labs in tv["bad"][:10]:
        x = results[owner[ln - 1]]
        rp = save_replay("X02", "l%05d" % ln, {"event.json": lines[ln - 1], "violated.json": labs, "trace.ndjson": os.path.join(x["world"], "trace.ndjson")})
        ctx.verdict.violation("%s at %s in %s" % (labs, lines[ln - 1], x["meta"]), rp)
    kinds = {}
    for e in lines:
        k = e["e"] + (":" + e["kind"] if e["e"] == "Sleep" else "")
        kinds[k] = kinds.get(k, 0) + 1
    need = ["SchedErr", "Sleep:sched_backoff", "Sleep:renew_fail", "Sleep:schedule", "AttemptEnd"]
    if any(kinds.get(k, 0) == 0 for k in need):
        raise ToolError("scheduler scenarios did not produce %s" % [k for k in need if not kinds.get(k)])
    backoffs = [e["s"] for e in lines if e["e"] == "Sleep" and e["kind"] == "sched_backoff"]
    cov = {"states": r["distinct"], "transitions": r["generated"], "traces_validated_against_impl": len(results), "samples": lines[:3],
           "events_by_kind": kinds, "backoff_seconds_observed": sorted(set(backoffs)), "liveness_checked": "EveryoneServed under weak fairness per task",
           "exhaustive": False,
           "rule": "TLC: every interleaving of 2 (thorough 3) certificate tasks with up to 5 scheduling errors in a row, safety guards and 'every certificate is requested "
                   "again and again' under weak fairness; real daemon: a healthy, a permanently failing and an unschedulable certificate on one account/endpoint for three "
                   "rounds, and an installed long-lived certificate; every scheduler event is replayed through the specification"}
    return {"coverage": cov, "assumptions": ["not one of the listed properties: coverage growth of the specification (DESIGN.md section 3)",
                                            "times are compared in whole seconds (TLC integers are 32-bit)"]}
