"""C08 - recoverable errors are retried with a fresh nonce, boundedly; others are not."""
import json, os, random
import flows, httpcheck
from common import save_replay, ToolError, log
from scenario import simple_cert
from mockca import ALL_ACME_ERRORS, RECOVERABLE

NEEDS = ["acmed"]


def specs_for(tier, seed):
    rng = random.Random(seed)
    certs = [simple_cert("c1", ids=[{"dns": "a.example.org", "challenge": "http-01"}, {"dns": "b.example.org", "challenge": "dns-01"}])]
    pos, _ = flows.baseline_positions("C08/base", certs)
    specs = []

    def add(kind, nth, fault, rep, why):
        specs.append(dict(tag="C08/s%04d" % len(specs), certs=certs, attempts=1,
                          endpoints={"A": {"script": [{"kind": kind, "nth": nth, "fault": fault, "repeat": rep}]}},
                          meta={"kind": kind, "nth": nth, "fault": fault, "repeat": rep, "why": why}))

    posts = [(k, n) for (k, n, m) in pos if m == "POST"]
    lengths_quick = [1, 9, 10, 11]
    lengths_all = list(range(1, 13))
    types = ALL_ACME_ERRORS + ["unknownType", "notype"]
    for pi, (kind, nth) in enumerate(posts):
        for ti, t in enumerate(types):
            st = 400 if (pi + ti) % 2 == 0 else 503
            f = "acme:%s:%d" % (t, st)
            if t in RECOVERABLE:
                ls = lengths_all if tier == "thorough" else [lengths_quick[(pi + ti + k) % 4] for k in range(2)]
                for L in sorted(set(ls)):
                    add(kind, nth, f, L, "recoverable run")
            else:
                # unrecoverable: a second transmission would also be answered with the error and show up
                # (answered once: the error is gone if the client asks again; three times: it is still there)
                if tier == "thorough":
                    add(kind, nth, f, 1, "unrecoverable")
                    add(kind, nth, f, 3, "unrecoverable")
                else:
                    add(kind, nth, f, 1 if (pi + ti + seed) % 2 else 3, "unrecoverable")
        for f in ["err:nonjson:500", "err:empty:502", "err:jsonarray:400", "err:jsonstr:404"]:
            if tier == "thorough" or (pi + len(f)) % 2 == seed % 2:
                add(kind, nth, f, 3, "no problem document")
        if tier == "thorough":
            for f in ["drop_before", "drop_after"]:
                add(kind, nth, f, 2, "lost / nonce-less")
            for t in RECOVERABLE:
                for L in (1, 2, 10, 11):
                    add(kind, nth, "acme:%s:%d:nononce" % (t, 400 if L % 2 else 500), L, "recoverable run without Replay-Nonce")
        else:
            # error answers need not carry a Replay-Nonce (RFC 8555 6.5): the retry has to fetch one
            rec = sorted(RECOVERABLE)
            add(kind, nth, "acme:%s:400:nononce" % rec[pi % len(rec)], 1, "recoverable run without Replay-Nonce")
            add(kind, nth, "acme:%s:500:nononce" % rec[(pi + 3) % len(rec)], [2, 10, 11][pi % 3], "recoverable run without Replay-Nonce")
            if pi % 3 == seed % 3:
                add(kind, nth, "drop_after", 2, "lost / nonce-less")
    # a second certificate on the same endpoint: its round begins with a nonce already in the cell and a directory answer that brings
    # another one - a retransmission still carries the newest nonce the CA gave
    certs2 = certs + [simple_cert("c2", ids=[{"dns": "c.example.org", "challenge": "http-01"}])]
    rec = sorted(RECOVERABLE)
    for k, kind in enumerate(("newOrder", "finalize", "challenge", "authz", "order")):
        for L in (1, 9):
            f = "acme:%s:%d" % (rec[(k + L) % len(rec)], 400 if L == 1 else 500)
            specs.append(dict(tag="C08/s%04d" % len(specs), certs=certs2, attempts=1,
                              endpoints={"A": {"ca": {"nonce_on_get": True}, "script": [{"kind": kind, "nth": 2 if kind in ("newOrder", "finalize") else 3, "fault": f, "repeat": L}]}},
                              meta={"kind": kind, "nth": 2, "fault": f, "repeat": L, "why": "recoverable run, two certificates on the endpoint"}))
    # GET positions: no retry loop at all
    for (kind, n, m) in pos:
        if m != "POST":
            for f in ["acme:serverInternal:500", "err:nonjson:500", "drop_before"]:
                add(kind, n, f, 2, "GET fault")
    # the nonce fetch itself answered with an error - with a Replay-Nonce header on the error page, as a CA may well send: the call fails
    for f in ("acme:serverInternal:500:withnonce", "err:nonjson:503:withnonce", "err:jsonarray:404:withnonce", "acme:rateLimited:429:withnonce", "err:empty:502"):
        for nth in (1, 2):
            specs.append(dict(tag="C08/s%04d" % len(specs), certs=certs, attempts=1,
                              endpoints={"A": {"ca": {"nonce_on_get": False}, "script": [{"kind": "newNonce", "nth": nth, "fault": f, "repeat": 1}] +
                                               ([{"kind": "newOrder", "nth": 1, "fault": "acme:badNonce:400:nononce", "repeat": 1}] if nth == 2 else [])}},
                              meta={"kind": "newNonce", "nth": nth, "fault": f, "repeat": 1, "why": "nonce fetch answered with an error"}))
    # objects that never reach the awaited status
    never = [("authz never valid", {"authz_polls": 10 ** 6}), ("order never ready", {"ready_polls": 10 ** 6}),
             ("order never valid", {"order_polls": 10 ** 6})]
    for why, ca in never:
        specs.append(dict(tag="C08/s%04d" % len(specs), certs=certs, attempts=1, endpoints={"A": {"ca": ca}},
                          meta={"why": why}))
        # the same with a Retry-After header on every poll answer (RFC 8555 7.5.1): whatever it says, polling stops after 20 polls
        for ra in ((0, 1, 3, 30) if tier == "thorough" else (0, 3)):
            specs.append(dict(tag="C08/s%04d" % len(specs), certs=certs, attempts=1, endpoints={"A": {"ca": dict(ca, retry_after=ra)}},
                              meta={"why": why + ", Retry-After: %d" % ra}))
    # objects that get there late, with Retry-After: still within the bound
    for ra in (0, 2):
        specs.append(dict(tag="C08/s%04d" % len(specs), certs=certs, attempts=1, endpoints={"A": {"ca": {"authz_polls": 15, "order_polls": 12, "retry_after": ra}}},
                          meta={"why": "slow but finite objects, Retry-After: %d" % ra}))
    return specs, posts


def run(ctx):
    mc = httpcheck.model_check("C08", ctx.tier)
    specs, posts = specs_for(ctx.tier, ctx.seed)
    results = flows.run_many(specs, workers=12)
    # a daemon that does not come back is not C08's business (C07/C12 promise termination):
    # what it did until then is validated like any other trace
    hung = [r["meta"] for r in results if any(x["hung"] for x in r["runs"])]
    bad, unmatched, stats, path = httpcheck.validate("C08/tv", results, httpcheck.C08)
    if unmatched:
        raise ToolError("trace line %d of scenario %s is not explained by Trace_AcmeHttp: %s" % (unmatched[2], results[unmatched[0]]["meta"], unmatched[1]))
    seen = set()
    for idx, labs, ev in bad:
        if idx in seen:
            continue
        seen.add(idx)
        r = results[idx]
        rp = save_replay("C08", os.path.basename(r["tag"]), {"scenario.json": r["meta"], "trace.ndjson": os.path.join(r["world"], "trace.ndjson"),
                                                            "violated.json": {"labels": labs, "event": ev}})
        ctx.verdict.violation("guards %s failed in scenario %s at %s" % (labs, r["meta"], ev), rp)
    # fidelity run: all labels of the layer; evidence only
    fb, fu, fstats, _ = httpcheck.validate("C08/fid", results, httpcheck.C04 + httpcheck.C08)
    tx = sum(1 for r in results for e in r["events"] if e.get("ev") == "CaReq" and e.get("method") == "POST")
    maxrun = 0
    for r in results:
        cnt = {}
        for e in r["events"]:
            if e.get("ev") == "CaReq" and e.get("method") == "POST":
                key = (e["path"], (e.get("post") or {}).get("payload_sha"))
                cnt[key] = cnt.get(key, 0) + 1
        maxrun = max([maxrun] + list(cnt.values()))
    cov = {"states": mc["states"], "transitions": mc["transitions"], "traces_validated_against_impl": len(results),
           "samples": [r["meta"] for r in results[:3]] + [r["meta"] for r in results[-2:]],
           "model": mc, "trace_validation": stats, "post_positions": posts, "post_transmissions_observed": tx,
           "max_transmissions_of_one_request_observed": maxrun, "scenarios_cut_by_timeout": hung,
           "model_fidelity": {"all_labels_clean": not fb and not fu, "bad": [(results[i]["meta"], l) for i, l, _ in fb[:5]]},
           "exhaustive": False,
           "rule": "every POST position of a two-identifier issuance x every ACME error type (+unknown, type-less) with run lengths "
                   "around the bound; non-problem bodies; GET faults; never-ready and slow objects, with and without a Retry-After header on the poll answers. thorough: all lengths 1..12 everywhere."}
    return {"coverage": cov, "assumptions": [
        "the mock CA's event (written before it replies) faithfully records what it received and answered",
        "the feature build only adds observation and virtualises sleeps",
        "redirects are out of scope (followed by reqwest)"]}
