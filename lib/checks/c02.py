"""C02 - stored files hold exactly what was issued, with no residue of older content."""
import json, os, random
import flows, flowcheck, storagecheck as sc
from common import ToolError, save_replay
from daemon import standard_hooks
from scenario import simple_cert

NEEDS = ["acmed"]


def set_chain(n):
    def f(s):
        ca = s.cas["A"]
        ca.o["chain_len"] = n
        ca._mk_chain()
    return f


def set_contacts(lst):
    def f(s):
        a = dict(s.accounts[0])
        a["contacts"] = [{"mailto": x} for x in lst]
        s.accounts[0] = a
    return f


def daemon_specs(tier, seed):
    rng = random.Random(seed)
    specs = []
    file_hooks = [h["name"] for h in standard_hooks() if h["name"].startswith("file-")]
    seqs = [[4, 1], [1, 4, 2], [3, 3, 1], [2, 4, 1, 3]] if tier != "thorough" else \
        [[a, b, c] for a in (1, 2, 3, 4) for b in (1, 2, 3, 4) for c in (1, 4) if len({a, b, c}) > 1]
    for kt in (["ecdsa_p256", "rsa2048"] if tier != "thorough" else ["ecdsa_p256", "rsa2048", "rsa4096", "ed25519", "ecdsa_p521"]):
        for seq in seqs:
            for reuse in (False, True):
                steps = []
                for n in seq:
                    steps += [("call", set_chain(n)), ("run", {"attempts": 1})]
                c = simple_cert("c%d" % len(specs), key_type=kt, kp_reuse=reuse)
                specs.append(flowcheck.prepare(dict(tag="C02/s%03d" % len(specs), certs=[c], steps=steps, account_hooks=file_hooks,
                                                    meta={"family": "chain lengths over renewals", "chain_lens": seq, "key_type": kt, "kp_reuse": reuse})))
    # a file-pre-edit hook that takes the old file off its path (backup by mv, rotation): the new content is at the configured path
    # afterwards, not in the file that was moved away
    for k, cmd_args in enumerate((["mv", "{{ file_path }}", "{{ file_path }}.bak"], ["rm", "-f", "{{ file_path }}"])):
        hooks = standard_hooks() + [{"name": "rotate", "type": ["file-pre-edit"], "cmd": cmd_args[0], "args": cmd_args[1:]}]
        c = simple_cert("rot%d" % len(specs), kp_reuse=bool(k))
        specs.append(flowcheck.prepare(dict(tag="C02/s%03d" % len(specs), certs=[c], hooks=hooks, account_hooks=file_hooks + ["rotate"],
                                            steps=[("run", {"attempts": 1}), ("call", set_chain(2)), ("run", {"attempts": 1}), ("call", set_contacts(["rot@example.org", "rot2@example.org"])),
                                                   ("run", {"attempts": 1})],
                                            meta={"family": "pre-edit hook takes the old file off its path", "hook": cmd_args[0]})))
    # a CA that hands out the end-entity certificate it already issued for that key and those names, behind another chain
    for seq in ([2, 3], [3, 1], [1, 2, 2]):
        c = simple_cert("sl%d" % len(specs), kp_reuse=True)
        steps = []
        for n in seq:
            steps += [("call", set_chain(n)), ("run", {"attempts": 1})]
        specs.append(flowcheck.prepare(dict(tag="C02/s%03d" % len(specs), certs=[c], account_hooks=file_hooks, endpoints={"A": {"ca": {"same_leaf": True}}}, steps=steps,
                                            meta={"family": "same end-entity certificate behind another chain", "chain_lens": seq})))
    # the chain written in other ways a CA may choose: what is stored is what was sent, byte for byte
    for style in ("crlf", "nofinal", "blank_between", "text_before"):
        c = simple_cert("p%d" % len(specs))
        specs.append(flowcheck.prepare(dict(tag="C02/s%03d" % len(specs), certs=[c], account_hooks=file_hooks, endpoints={"A": {"ca": {"pem_style": style, "chain_len": 2}}},
                                            steps=[("run", {"attempts": 1}), ("call", set_chain(3)), ("run", {"attempts": 1})],
                                            meta={"family": "chain written in another PEM style", "style": style})))
    # a usable key of another type than configured is on disk (key_type edited, file name format without the key type)
    for kt in ("ecdsa_p256", "rsa2048"):
        for reuse in (False, True):
            c = simple_cert("o%d" % len(specs), key_type=kt, kp_reuse=reuse)
            steps = [("call", flowcheck.install_pair(c, "othertype")), ("run", {"attempts": 1}), ("call", set_chain(3)), ("run", {"attempts": 1})]
            specs.append(flowcheck.prepare(dict(tag="C02/s%03d" % len(specs), certs=[c], steps=steps, account_hooks=file_hooks,
                                                meta={"family": "stored key of another type than configured", "key_type": kt, "kp_reuse": reuse})))
    # account files that gain and lose contacts, endpoints and superseded keys
    long_c = ["a-very-long-contact-address-%d@example.org" % i for i in range(6)]
    plans = [[long_c, long_c[:1], long_c[:3]], [long_c[:1], long_c, []], [long_c[:2], long_c[:2] + ["x@example.org"], long_c[:1]]]
    for plan in plans:
        steps = []
        for contacts in plan:
            steps += [("call", set_contacts(contacts)), ("run", {"attempts": 1})]
        specs.append(flowcheck.prepare(dict(tag="C02/s%03d" % len(specs), certs=[simple_cert("a%d" % len(specs))], steps=steps, account_hooks=file_hooks,
                                            accounts=[{"name": "acc1", "contacts": [{"mailto": plan[0][0]}] if plan[0] else []}],
                                            meta={"family": "account file grows and shrinks", "contacts_per_step": [len(x) for x in plan]})))

    def set_key(kt):
        def f(s):
            a = dict(s.accounts[0]); a["key_type"] = kt; s.accounts[0] = a
        return f
    for seq in (["rsa4096", "ed25519", "ecdsa_p256"], ["ed25519", "rsa2048", "ed25519", "ecdsa_p384"]):
        steps = []
        for kt in seq:
            steps += [("call", set_key(kt)), ("run", {"attempts": 1})]
        specs.append(flowcheck.prepare(dict(tag="C02/s%03d" % len(specs), certs=[simple_cert("k%d" % len(specs))], steps=steps, account_hooks=file_hooks,
                                            accounts=[{"name": "acc1", "contacts": [{"mailto": "k@example.org"}], "key_type": seq[0]}],
                                            meta={"family": "account key roll-overs (superseded keys accumulate)", "key_types": seq})))
    # certificates that differ in key type only (the usual RSA + ECDSA pair; their ids and default file names differ by the key type):
    # each has its own two files
    for kts in (("rsa2048", "ecdsa_p256"), ("ecdsa_p384", "ecdsa_p256", "ed25519")):
        specs.append(flowcheck.prepare(dict(tag="C02/s%03d" % len(specs), certs=[simple_cert("dual", key_type=kt) for kt in kts], account_hooks=file_hooks,
                                            steps=[("run", {"attempts": 1}), ("call", set_chain(3)), ("run", {"attempts": 1})],
                                            meta={"family": "certificates of one name that differ in key type", "key_types": list(kts)})))
    specs.append(flowcheck.prepare(dict(tag="C02/s%03d" % len(specs), certs=[simple_cert("e1"), simple_cert("e2", endpoint="B")],
                                        endpoints={"A": {}, "B": {}}, attempts=2, account_hooks=file_hooks,
                                        meta={"family": "account used on two endpoints"})))
    return specs


def run(ctx):
    maxops = 4 if ctx.tier == "thorough" else 3
    r, reps = sc.model("C02_mc", "content", maxops, [1, 2, 3])
    sc.model_sanity("C02_dev")
    # histories TLC does not draw (its writes all differ): the daemon writes what it wrote last time over a file that somebody else has
    # replaced in between (a restored backup, a deployment tool) - every type, pre-existing content or none, once and twice
    n_model = len(reps)
    for pre in (1, 2, 3):
        for t in ("crt", "pk", "account"):
            for hist in ([("w", 1, 1), ("x", 1, 7), ("w", 1, 1)], [("w", 1, 1), ("w", 1, 2), ("x", 1, 9), ("w", 1, 2)],
                         [("w", 1, 3), ("x", 1, 8), ("w", 1, 3), ("x", 1, 6), ("w", 1, 3)]):
                reps.append({"cfg": dict(reps[0]["cfg"], pre=pre), "hist": [{"type": t, "len": n, "fill": f, "external": k == "x"} for k, n, f in hist]})
    bad, rstats, path = sc.replay_and_validate("C02/replay", reps, sc.L02)
    rstats["histories_with_foreign_replacements"] = len(reps) - n_model
    for idx, labs, ev in bad[:10]:
        rp = save_replay("C02", "hist%05d" % idx, {"behaviour.json": reps[idx], "violated.json": {"labels": labs, "event": ev}})
        ctx.verdict.violation("history %s: %s at %s" % (json.dumps(reps[idx]["hist"]), labs, json.dumps(ev)[:300]), rp)
    # daemon level
    fmc = flowcheck.model_check("C02f", ctx.tier)
    specs = daemon_specs(ctx.tier, ctx.seed)
    # an attempt that fails once the key pair exists (finalize, last polls, download), then a fault-free attempt IN THE SAME PROCESS:
    # the attempt reported successful must leave the key of its own CSR on disk, whatever the failed one left in memory
    fcert = simple_cert("f1", ids=[{"dns": "a.example.org", "challenge": "http-01"}])
    pos, _ = flows.baseline_positions("C02/base", [flowcheck.prepare(dict(certs=[fcert]))["certs"][0]])
    late = [p for p in pos if p[0] in ("finalize", "order", "cert")]
    specs += flows.single_fault_specs("C02r", fcert, late, ctx.tier, ctx.seed + 2, attempts=2, quick_stride=4)
    specs += flowcheck.shorter_lived_specs("C02")
    results = flows.run_many(specs, workers=12)
    for x in results:
        if any(y["hung"] for y in x["runs"]):
            raise ToolError("daemon hung in %s" % x["meta"].get("family"))
    fbad, fstats, _ = flowcheck.validate("C02/flow", results, flowcheck.L02)
    flowcheck.report(ctx, "C02", results, fbad)
    modes = {"account": 0o600, "pk": 0o600, "crt": 0o644}
    keep = {"account": -1, "pk": -1, "crt": -1}
    groups = [(i, sc.daemon_write_events(x, modes, keep, keep, 0o022)) for i, x in enumerate(results)]
    dbad, dstats, dpath = sc.validate_events("C02/daemon", groups, sc.L02)
    seen = set()
    for i, labs, ev in dbad:
        if i in seen:
            continue
        seen.add(i)
        x = results[i]
        rp = save_replay("C02", os.path.basename(x["tag"]), {"scenario.json": {k: v for k, v in x["meta"].items() if k not in ("flow", "hook_types")},
                                                            "trace.ndjson": os.path.join(x["world"], "trace.ndjson"), "violated.json": {"labels": labs, "event": ev}})
        ctx.verdict.violation("daemon write left something else than what was written: %s in %s" % (json.dumps(ev)[:300], x["meta"].get("family")), rp)
    shrinks = 0
    for _, evs in groups:
        for e in evs:
            if e["e"] == "Reset":
                pre = e["pre"]
            elif e["e"] == "Write" and pre[e["type"]]["exists"] and pre[e["type"]]["runs"][0]["len"] > e["len"]:
                shrinks += 1
    cov = {"states": r["distinct"] + fmc["states"], "transitions": r["generated"] + fmc["transitions"],
           "traces_validated_against_impl": len(reps) + len(results),
           "samples": [reps[0], reps[-1], {k: v for k, v in results[0]["meta"].items() if k not in ("flow", "hook_types")}],
           "storage_model": {"states": r["distinct"], "histories_replayed": len(reps), "max_ops": maxops, "lengths": [1, 2, 3]},
           "flow_model": fmc, "replay": rstats, "daemon_writes": dstats, "daemon_writes_shorter_than_before": shrinks, "flow_trace": fstats,
           "exhaustive": True,
           "rule": "TLC enumerates every history of up to %d writes of lengths {1,2,3} blocks per file type over {no file, 2-block file, 3-block file}; each is "
                   "replayed through the real write_file and the content found on disk (run-length encoded) is judged by Storage.tla. Daemon level: "
                   "renewals whose chains go 4->1, 1->4->2, ..., account files that gain/lose contacts, endpoints and superseded keys; every FileWrite "
                   "is paired with the file-post hook's observation." % maxops}
    return {"coverage": cov, "assumptions": [
        "exhaustive refers to the bounded history grid printed by TLC (all of it is replayed); the daemon-level families are samples",
        "the probe and the recorder read a file until two consecutive reads agree (tokio completes writes on a background thread)"]}
