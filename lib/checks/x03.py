"""X03 (not a listed property) - the order of ACME requests within one renewal as a function of the object statuses the CA has
answered so far (spec/Protocol.tla): authorizations in the CA's order, a challenge only for an authorization just seen pending,
polling stops at the awaited status, finalize only after `ready` was seen, download only after `valid` was seen after the
finalization, success only after a download.  TLC enumerates every behaviour of the client against a CA that answers any status
at any authorization / order request; each behaviour is the script of a mock CA played against the real daemon, and the CA's
request log of that run is validated against the same actions."""
import json, os, random
import tlc, flows, flowcheck
from common import fresh_dir, ToolError, save_replay
from scenario import simple_cert

NEEDS = ["acmed"]
LABELS = ["X03_DirectoryFirst", "X03_AuthzFromOrder", "X03_AuthzInOrder", "X03_StopAtValidAuthz", "X03_FirstAnswerDecides",
          "X03_ChallengeOfPendingAuthz", "X03_ChallengeOffered", "X03_ChallengeOnce", "X03_OwnOrder", "X03_OrderAfterAuthzs",
          "X03_StopAtAwaitedStatus", "X03_FinalizeAfterReady", "X03_DownloadAfterValid", "X03_DownloadOnce", "X03_SuccessNeedsDownload"]
MC_CFG = """SPECIFICATION MCSpec
CONSTANTS
  Enforce = %s
  Deviations = %s
  MaxPoll = %d
  Zs <- %s
INVARIANTS NoBad %s
CHECK_DEADLOCK FALSE
"""
TRACE_CFG = """SPECIFICATION TSpec
CONSTANTS
  Enforce = %s
  Deviations = {}
  MaxPoll = 20
  Zs <- MCZs
POSTCONDITION Accepted
CHECK_DEADLOCK FALSE
"""
OK_STATUS = (200, 201)


def layer(events):
    """CA request log + attempt boundaries -> the events of Trace_Protocol."""
    out = []
    for e in events:
        ev = e.get("ev")
        if e.get("src") == "acmed":
            if ev == "Run":
                out.append({"e": "Reset"})
            elif ev == "AttemptStart":
                out.append({"e": "AttemptStart"})
            elif ev == "AttemptEnd":
                out.append({"e": "AttemptEnd", "ok": bool(e.get("is_success"))})
            continue
        if e.get("src") != "ca" or ev != "CaReq":
            continue
        ok = bool(e.get("delivered")) and (e.get("resp") or {}).get("status") in OK_STATUS
        d = e.get("detail") or {}
        k = e.get("kind")
        if k == "directory":
            out.append({"e": "Directory", "ok": ok})
        elif k == "newOrder":
            out.append({"e": "NewOrder", "ok": ok and bool(d.get("order")), "o": d.get("order") or "none", "zs": list(d.get("authzs") or [])})
        elif k == "authz":
            chals = [c.get("id") or c.get("chall") or "?" for c in (d.get("challenges") or [])]
            out.append({"e": "Authz", "ok": ok, "z": e.get("obj") or "?", "status": d.get("status") or "unknown", "chals": chals})
        elif k == "challenge":
            out.append({"e": "Chall", "ok": ok, "c": e.get("obj") or "?", "z": d.get("authz") or "?"})
        elif k == "order":
            out.append({"e": "OrderPoll", "ok": ok, "o": e.get("obj") or "?", "status": d.get("status") or "unknown", "hascert": bool(d.get("has_cert_url"))})
        elif k == "finalize":
            out.append({"e": "Finalize", "ok": ok and bool(d.get("issued", True)), "o": e.get("obj") or "?"})
        elif k == "cert":
            out.append({"e": "Cert", "ok": ok, "o": d.get("order") or "?"})
    return out


def solvable(b):
    """The script never claims more than the mock CA's own state allows: with authz_polls = order_polls = 0 the CA is always at least
    as far as a client that first saw every authorization pending, so a model success must be a real success."""
    return b["success"] and all(s["status"] == "pending" for s in b["script"] if s["first"])


def scripts_from(r):
    seen, out = set(), []
    for b in tlc.replays(r["raw"]):
        key = json.dumps(b, sort_keys=True)
        if key not in seen:
            seen.add(key)
            out.append(b)
    return out


def run(ctx):
    rng = random.Random(ctx.seed)
    two = tlc.model_check("Protocol", MC_CFG % (tlc.tla_set(LABELS), "{}", 2, "MCZs", "Emit"), "X03_mc", workers=1, timeout=900,
                          required_actions=["MCFetch", "MCChall", "MCPollZ", "MCPollO", "MCFinalize", "MCCert", "MCOk", "MCFail"])
    if two["violated"] or two["vacuous_actions"]:
        raise ToolError("Protocol: the model violates its own guards: %s %s (%s)" % (two["violated"], two["vacuous_actions"], two["out_path"]))
    for w in ("W_Success", "W_FailAfterFinalize"):
        rw = tlc.model_check("Protocol", MC_CFG % (tlc.tla_set(LABELS), "{}", 2, "MCZs", w), "X03_w", workers=2, timeout=300)
        if not rw["violated"]:
            raise ToolError("Protocol model sanity: witness %s is not reachable" % w)
    for dev in ("SkipReadyPoll", "PollPastValid", "AnyFirstStatusGoesOn"):
        rd = tlc.model_check("Protocol", MC_CFG % (tlc.tla_set(LABELS), '{"%s"}' % dev, 2, "MCZs", ""), "X03_dev", workers=2, timeout=300)
        if not rd["violated"]:
            raise ToolError("Protocol model sanity: deviation %s is not caught" % dev)
    behaviours = scripts_from(two)
    if len(behaviours) < 1000:
        raise ToolError("Protocol: only %d behaviours emitted" % len(behaviours))
    if ctx.tier == "thorough":
        chosen = behaviours
    else:
        # behaviours the mock CA can follow to the end (every authorization first reported pending), other successes, failures
        rng.shuffle(behaviours)
        chosen = [b for b in behaviours if solvable(b)][:70] + [b for b in behaviours if b["success"] and not solvable(b)][:20] \
            + [b for b in behaviours if not b["success"]][:40]
    ids = [{"dns": "p1.example.org", "challenge": "http-01"}, {"dns": "p2.example.org", "challenge": "http-01"}]
    specs = []
    for b in chosen:
        script = [{"kind": s["kind"], "nth": s["nth"], "repeat": s["repeat"], "fault": "obj:status=" + s["status"]} for s in b["script"]]
        sp = dict(tag="X03/s%04d" % len(specs), certs=[simple_cert("proto", ids=ids)], attempts=1,
                  endpoints={"A": {"script": script, "ca": {"authz_polls": 0, "order_polls": 0}}}, no_dialect=True,
                  meta={"family": "CA status script", "script": b["script"], "model_success": b["success"], "solvable": solvable(b)})
        sp = flowcheck.prepare(sp)
        sp["steps"] = [("run", {})]
        specs.append(sp)
    # the unscripted CA in each of its paces, two attempts (the second one starts from an installed pair)
    for opts in ({}, {"authz_polls": 0}, {"authz_polls": 3, "ready_polls": 3, "order_polls": 3}, {"order_polls": 0}):
        sp = dict(tag="X03/s%04d" % len(specs), certs=[simple_cert("proto", ids=ids)], attempts=2, endpoints={"A": {"ca": dict(opts)}}, no_dialect=True,
                  meta={"family": "unscripted CA", "ca": opts, "model_success": True})
        sp = flowcheck.prepare(sp)
        sp["steps"] = [("run", {})]
        specs.append(sp)
    results = flows.run_many(specs, workers=8)
    lines, owner, succ = [], [], 0
    for i, x in enumerate(results):
        if any(y["hung"] for y in x["runs"]):
            raise ToolError("daemon hung in %s" % x["meta"])
        evs = layer(x["events"])
        ok = any(e["e"] == "AttemptEnd" and e["ok"] for e in evs)
        succ += ok
        if x["meta"]["family"] == "unscripted CA" and not ok:
            raise ToolError("the unscripted CA %s did not lead to a certificate" % x["meta"]["ca"])
        for e in evs:
            lines.append(e)
            owner.append(i)
    root = fresh_dir("X03", "tv")
    path = os.path.join(root, "protocol.ndjson")
    open(path, "w").write("".join(json.dumps(e) + "\n" for e in lines))
    tv = tlc.validate_trace("Trace_Protocol", TRACE_CFG % tlc.tla_set(LABELS), "X03_tv", path, timeout=900)
    if tv["hard_errors"] or tv["unmatched"] is not None:
        raise ToolError("TLC failed on the protocol trace: %s unmatched=%s %s (%s)" % (tv["hard_errors"][:2], tv["unmatched"],
                        lines[tv["unmatched"] - 1] if tv["unmatched"] else "", tv["out_path"]))
    for ln, labs in tv["bad"][:10]:
        x = results[owner[ln - 1]]
        rp = save_replay("X03", "l%05d" % ln, {"event.json": lines[ln - 1], "violated.json": labs, "meta.json": x["meta"],
                                                "trace.ndjson": os.path.join(x["world"], "trace.ndjson")})
        ctx.verdict.violation("%s at %s in %s" % (labs, lines[ln - 1], {k: v for k, v in x["meta"].items() if k in ("family", "script", "ca")}), rp)
    kinds = {}
    for e in lines:
        kinds[e["e"]] = kinds.get(e["e"], 0) + 1
    need = ["Directory", "NewOrder", "Authz", "Chall", "OrderPoll", "Finalize", "Cert", "AttemptEnd"]
    if any(kinds.get(k, 0) == 0 for k in need) or succ < 5:
        raise ToolError("protocol scenarios did not produce %s (successes %d)" % ([k for k in need if not kinds.get(k)], succ))
    # the model's prediction of the outcome: a model failure is a real failure; a model success the CA can follow is a real success
    for i, x in enumerate(results):
        m = x["meta"]
        if m["family"] != "CA status script":
            continue
        real = any(e["e"] == "AttemptEnd" and e["ok"] for e, o in zip(lines, owner) if o == i)
        if (real and not m["model_success"]) or (m["solvable"] and not real):
            rp = save_replay("X03", "o%05d" % i, {"meta.json": m, "trace.ndjson": os.path.join(x["world"], "trace.ndjson")})
            ctx.verdict.violation("X03_OutcomeAsModelled: the model ends this script in %s, the daemon in %s: %s" % (
                "success" if m["model_success"] else "failure", "success" if real else "failure", m["script"]), rp)
    cov = {"states": two["distinct"], "transitions": two["generated"], "behaviours_enumerated": len(behaviours),
           "traces_validated_against_impl": len(results), "events_by_kind": kinds, "real_runs_ending_in_a_certificate": succ,
           "samples": lines[:3], "exhaustive": False,
           "rule": "TLC: every behaviour of the client of acme_proto.rs against a CA answering any of 4 authorization / 5 order statuses at every "
                   "authorization and order request (2 authorizations, polling loops cut after 2 answers and the last answer repeated); "
                   "quick: every behaviour that reaches the finalization plus a rotating sample of 60 others, thorough: all of them, each as the "
                   "script of the mock CA against the real daemon; plus the unscripted CA in four paces, two attempts each; every CA-side request is "
                   "replayed through the specification's actions"}
    return {"coverage": cov, "assumptions": ["not one of the listed properties: coverage growth of the specification (DESIGN.md section 3)",
                                            "the mock CA's internal object state follows its own rules; a script only changes the status it reports"]}
