"""C10 - hooks run in declared order, by type, one at a time, with the documented data."""
import json, os, random
import tlc, flows, flowcheck, project
from common import fresh_dir, ToolError, save_replay, HOOKREC
from daemon import rec_hook, CHALLENGE_KV, FILE_KV, POSTOP_KV
from scenario import simple_cert

NEEDS = ["acmed"]
LABELS_TPL = ["C10_Template"]
LABELS = ["C10_CleanAfterValidation", "C10_Order", "C10_ByType", "C10_OneAtATime", "C10_AbortUnlessAllowed", "C10_Env", "C10_Vars", "C10_FileBracket", "C10_StdinStdout"]
PROFILES = [["challenge-http-01"], ["challenge-http-01", "challenge-http-01-clean"], ["post-operation"],
            ["file-pre-create", "file-pre-edit", "file-post-create", "file-post-edit"], ["challenge-http-01-clean", "post-operation"],
            ["file-post-create", "file-post-edit", "challenge-http-01", "post-operation"], ["file-pre-create", "file-pre-edit", "challenge-http-01-clean"]]
SHAPES = [["h1", "h2", "h3"], ["h3", "g1"], ["g1", "h3", "h1"], ["g2", "g1"], ["h2", "g2", "h2"], ["g1"]]
GROUPS = [{"name": "g1", "hooks": ["h1", "g2", "h3"]}, {"name": "g2", "hooks": ["h2", "h1"]}]      # as MCGroups in Hooks.tla
KEBAB = {"FilePreCreate": "file-pre-create", "FilePostCreate": "file-post-create", "FilePreEdit": "file-pre-edit", "FilePostEdit": "file-post-edit",
         "ChallengeHttp01": "challenge-http-01", "ChallengeHttp01Clean": "challenge-http-01-clean", "ChallengeDns01": "challenge-dns-01",
         "ChallengeDns01Clean": "challenge-dns-01-clean", "ChallengeTlsAlpn01": "challenge-tls-alpn-01",
         "ChallengeTlsAlpn01Clean": "challenge-tls-alpn-01-clean", "PostOperation": "post-operation"}
ALL_KV = dict(CHALLENGE_KV, **FILE_KV, **POSTOP_KV)
# ... and every scenario variable once more, read through the template variable `env`
ALL_KV.update({"te%d%d%d%d" % pt: "{{ env.VT_E%d%d%d%d }}" % pt for pt in [(p, g, c, i) for p in (0, 1) for g in (0, 1) for c in (0, 1) for i in (0, 1)]})
MC_CFG = """SPECIFICATION MCSpec
CONSTANTS
  Enforce = %s
  Deviations = {}
  OwedCap <- MCOwedCap
INVARIANTS NoBad Emit
CHECK_DEADLOCK FALSE
"""
TRACE_CFG = """SPECIFICATION TSpec
CONSTANTS
  Enforce = %s
  Deviations = {}
POSTCONDITION Accepted
CHECK_DEADLOCK FALSE
"""
TPL_MC_CFG = """SPECIFICATION MCSpec
CONSTANTS
  Enforce = {"C10_Template"}
  Deviations = %s
  MaxLen = %d
INVARIANTS NoBad Emit
CHECK_DEADLOCK FALSE
"""
TPL_TRACE_CFG = """SPECIFICATION TSpec
CONSTANTS
  Enforce = {"C10_Template"}
  Deviations = {}
  MaxLen = 1
POSTCONDITION Accepted
CHECK_DEADLOCK FALSE
"""
DOC_VARS = {"challenge": ["identifier", "identifier_tls_alpn", "challenge", "file_name", "proof", "raw_proof", "is_clean_hook"],
            "file": ["file_name", "file_directory", "file_path"],
            "post-operation": ["key_type", "status", "is_success", "certificate_path", "private_key_path"]}


def template_family(ctx):
    """Template.tla enumerates template shapes with their concrete MiniJinja text; every one of them is given to recorder hooks of every
    event family as an argument (and some as stdin_str); what the hooks received is judged by the specification."""
    maxlen = 3 if ctx.tier == "thorough" else 2
    r = tlc.model_check("Template", TPL_MC_CFG % ("{}", maxlen), "C10_tpl_mc", workers=4, timeout=900, required_actions=["MCPick"])
    if r["violated"]:
        raise ToolError("Template: the specification disagrees with itself: %s (%s)" % (r["violated"], r["out_path"]))
    rd = tlc.model_check("Template", TPL_MC_CFG % ('{"VerbatimWithoutExpression"}', 1), "C10_tpl_dev", workers=2, timeout=300)
    if not rd["violated"]:
        raise ToolError("Template model sanity: leaving expression-less templates as written is not caught")
    tpls, seen = [], set()
    for b in tlc.replays(r["raw"]):
        if b["src"] not in seen:
            seen.add(b["src"])
            tpls.append(b)
    tkv = {"t%d" % i: b["src"] for i, b in enumerate(tpls)}
    stdin_tpl = next(i for i, b in enumerate(tpls) if len(b["segs"]) == 2 and b["segs"][0]["k"] == "if" and b["segs"][1]["k"] == "nl") \
        if any(len(b["segs"]) == 2 for b in tpls) else 0
    hooks = [rec_hook("tp-chal", ["challenge-http-01", "challenge-http-01-clean"], kv=dict(CHALLENGE_KV, **tkv), stdin_str=tpls[stdin_tpl]["src"]),
             rec_hook("tp-post", ["post-operation"], kv=dict(POSTOP_KV, **tkv)),
             rec_hook("tp-file", ["file-pre-create", "file-post-create", "file-pre-edit", "file-post-edit"], kv=dict(FILE_KV, **tkv)),
             rec_hook("tp-acct", ["file-pre-create", "file-post-create", "file-pre-edit", "file-post-edit"], kv=FILE_KV)]
    cert = simple_cert("tp", ids=[{"dns": "mx1.tp.example.org", "challenge": "http-01"}])
    sp = flowcheck.prepare(dict(tag="C10/tpl", certs=[cert], attempts=2, hooks=hooks, cert_hooks=["tp-chal", "tp-post", "tp-file"], account_hooks=["tp-acct"],
                                meta={"family": "template forms", "templates": len(tpls)}))
    x = flows.run_many([sp], workers=1)[0]
    if any(y["hung"] for y in x["runs"]):
        raise ToolError("daemon hung in the template scenario")
    lines, cur_type, runs = [], None, 0
    for e in x["events"]:
        if e.get("src") == "acmed" and e.get("ev") == "HookCall":
            cur_type = KEBAB.get(e["type"], e["type"])
        elif e.get("src") == "hook" and e.get("ev") == "HookRun" and e.get("phase") == "end" and e["hook"] in ("tp-chal", "tp-post", "tp-file"):
            kv = e.get("kv") or {}
            fam = "challenge" if (cur_type or "").startswith("challenge-") else "file" if (cur_type or "").startswith("file-") else "post-operation"
            env = {}
            for v in DOC_VARS[fam]:
                val = kv.get(v) or ""
                env[v] = {"s": val, "t": (val == "true") if v in ("is_clean_hook", "is_success") else val != ""}
                if v == "identifier":
                    env["rev:identifier"] = {"s": ".".join(reversed(val.split("."))), "t": True}
            runs += 1
            for i, b in enumerate(tpls):
                if ("t%d" % i) not in kv:
                    raise ToolError("the recorder did not get template argument t%d in hook %s" % (i, e["hook"]))
                lines.append({"e": "Render", "env": env, "segs": b["segs"], "out": kv["t%d" % i] or "", "where": "%s arg t%d (%s)" % (e["hook"], i, cur_type)})
            if e.get("stdin") is not None and e["hook"] == "tp-chal":
                lines.append({"e": "Render", "env": env, "segs": tpls[stdin_tpl]["segs"], "out": e["stdin"], "where": "%s stdin_str (%s)" % (e["hook"], cur_type)})
    if runs < 6:
        raise ToolError("template scenario: only %d hook runs observed" % runs)
    root = fresh_dir("C10", "tpl_tv")
    path = os.path.join(root, "templates.ndjson")
    open(path, "w").write("".join(json.dumps(e) + "\n" for e in lines))
    tv = tlc.validate_trace("Trace_Template", TPL_TRACE_CFG, "C10_tpl_tv", path, timeout=1800, heap="8g")
    if tv["hard_errors"] or tv["unmatched"] is not None:
        raise ToolError("TLC failed on the template trace: %s unmatched=%s (%s)" % (tv["hard_errors"][:2], tv["unmatched"], tv["out_path"]))
    shown = set()
    for ln, labs in tv["bad"]:
        ev = lines[ln - 1]
        src = "".join("" for _ in [0])
        key = json.dumps(ev["segs"])
        if key in shown or len(shown) >= 8:
            continue
        shown.add(key)
        rp = save_replay("C10", "tpl%04d" % ln, {"event.json": ev, "trace.ndjson": os.path.join(x["world"], "trace.ndjson")})
        ctx.verdict.violation("%s: template %s given as %s arrived as %s" % (labs, json.dumps(next(b["src"] for b in tpls if b["segs"] == ev["segs"])), ev["where"], json.dumps(ev["out"])), rp)
    return {"templates_in_model": len(tpls), "max_segments": maxlen, "hook_runs": runs, "renderings_judged": len(lines), "tlc_states": r["distinct"]}


PATTERNS = [(p, g, c, i) for p in (0, 1) for g in (0, 1) for c in (0, 1) for i in (0, 1)]


def env_name(pt):
    return "VT_E%d%d%d%d" % pt


def plant(cert_cfg, pre):
    """Step: files that exist before the daemon's first write - 'emptykey' (a 0-byte private key, no certificate), 'emptyboth', 'pair' (an expired pair)."""
    def f(sc):
        base = os.path.join(sc.world.certs, project.cert_id(cert_cfg))
        if pre == "dangling":
            # the key path is a symbolic link to a file that does not exist yet: nothing is there, the write creates the target
            os.symlink(os.path.basename(base) + ".real-key", base + ".pk.pem")
        elif pre == "pair":
            flowcheck.install_pair(cert_cfg, "pair")(sc)
        else:
            for ext in ((".pk.pem",) if pre == "emptykey" else (".pk.pem", ".crt.pem")):
                open(base + ext, "w").close()
                os.chmod(base + ext, 0o600)
    return f


def build_spec(idx, rc, tag, ident_kind="dns", pre="none", wildcard=False):
    """rc: [prof, allow, exit, shape] as printed by TLC (1-based arrays)."""
    hooks = []
    for i in range(3):
        name = "h%d" % (i + 1)
        types = PROFILES[rc["prof"][i] - 1]
        if wildcard:
            # a wildcard name is validated with dns-01, for the base name (RFC 8555 7.1.3: the authorization names the base domain)
            types = [t.replace("challenge-http-01", "challenge-dns-01") for t in types]
        kw = {}
        if ("challenge-http-01" in types or "challenge-dns-01" in types) and i == 0:
            kw["stdin_str"] = "{{ proof }}|{{ identifier }}"
        hooks.append(rec_hook(name, types, exit_seq=str(rc["exit"][i]), kv=ALL_KV, allow_failure=bool(rc["allow"][i]), **kw))
    acct_hook = rec_hook("a1", ["file-pre-create", "file-pre-edit", "file-post-create", "file-post-edit"], kv=FILE_KV)
    hooks.append(acct_hook)
    penv = {env_name(pt): "proc" for pt in PATTERNS if pt[0]}
    genv = {env_name(pt): "glob" for pt in PATTERNS if pt[1]}
    cenv = {env_name(pt): "cert" for pt in PATTERNS if pt[2]}
    ienv = {env_name(pt): "ident" for pt in PATTERNS if pt[3]}
    ident = {"dns": "hk%d.example.org" % idx, "challenge": "http-01", "env": ienv}
    if wildcard:
        ident = {"dns": "*.hk%d.example.org" % idx, "challenge": "dns-01", "env": ienv}
    cert = simple_cert("hk%d" % idx, ids=[ident], env=cenv)
    shape = SHAPES[rc["shape"] - 1]
    sp = dict(tag=tag, certs=[cert], attempts=2, hooks=hooks, groups=GROUPS, cert_hooks=shape, account_hooks=["a1"],
              global_opts={"env": genv}, env=penv,
              meta={"family": "TLC configuration, wildcard name" if wildcard else "TLC configuration" if pre == "none" else "TLC configuration, files present before the first write (%s)" % pre, "rc": rc, "shape": shape, "pre": pre,
                    "hooks_conf": {"defs": [{"name": h["name"], "types": h["type"], "allow": bool(h.get("allow_failure", False))} for h in hooks],
                                   "groups": GROUPS, "lists": [{"owner": "cert", "names": shape}, {"owner": "account", "names": ["a1"]}]}})
    sp = flowcheck.prepare(sp)
    if pre != "none":
        sp["steps"] = [("call", plant(sp["certs"][0], pre)), ("run", {})]
    return sp


def hooks_layer(x):
    evs = x["events"]
    meta = x["meta"]
    cid = list(meta["flow"].keys())[0]
    certs_dir = os.path.join(x["world"], "certs")
    acc_dir = os.path.join(x["world"], "accounts")
    ids = ",".join(i["id"].split(":", 1)[1] for i in meta["flow"][cid]["ids"])
    pre = meta.get("pre", "none")
    present = [os.path.join(certs_dir, cid + ext) for ext in {"none": (), "dangling": (), "emptykey": (".pk.pem",)}.get(pre, (".pk.pem", ".crt.pem"))]
    out = [{"e": "Reset", "defs": meta["hooks_conf"]["defs"], "groups": meta["hooks_conf"]["groups"], "lists": meta["hooks_conf"]["lists"], "present": present}]
    last_req = {"ok": None, "status": None}
    cur_type = None
    cur_authz = None
    for e in evs:
        src, ev = e.get("src"), e.get("ev")
        if src == "acmed":
            if ev == "HookCall":
                cur_type = KEBAB.get(e["type"], e["type"])
                out.append({"e": "Call", "type": cur_type, "all": e["all"]})
            elif ev == "FileWrite":
                out.append({"e": "Write", "path": e["path"]})
            elif ev == "ReqEnd":
                last_req = {"ok": bool(e["is_success"]), "status": e["status"]}
            elif ev == "AttemptEnd":
                out.append({"e": "EndRun", "ok": bool(e.get("is_success"))})
        elif src == "ca" and ev == "CaReq" and e.get("kind") == "authz" and (e.get("detail") or {}).get("ident"):
            cur_authz = e["detail"]
        elif src == "drv" and ev == "DaemonEnd":
            out.append({"e": "EndRun", "ok": False})
        elif src == "hook" and ev == "HookRun":
            if e["phase"] == "start":
                out.append({"e": "Start", "hook": e["hook"]})
                continue
            kv = e.get("kv") or {}
            env = e.get("env") or {}
            is_acct = e["hook"] == "a1"
            role = "chal" if (cur_type or "").startswith("challenge-") else "other"
            envs = [] if is_acct else [{"p": bool(p), "g": bool(g), "c": bool(c), "i": bool(i), "value": env.get(env_name((p, g, c, i)), "absent"),
                                             "tvalue": kv.get("te%d%d%d%d" % (p, g, c, i)) or "absent"} for (p, g, c, i) in PATTERNS]
            obs, exp = {}, {}
            if (cur_type or "").startswith("file-"):
                d = kv.get("file_directory", "")
                obs = {"file_path": kv.get("file_path"), "dir_known": d in (certs_dir, acc_dir), "name_nonempty": bool(kv.get("file_name"))}
                exp = {"file_path": d + "/" + kv.get("file_name", ""), "dir_known": True, "name_nonempty": True}
            elif cur_type == "post-operation":
                obs = {k: kv.get(k) for k in ("identifiers", "key_type", "is_success", "status", "certificate_path", "private_key_path")}
                exp = {"identifiers": ids, "key_type": "ecdsa-p256", "is_success": "true" if last_req["ok"] else "false",
                       "status": last_req["status"], "certificate_path": os.path.join(certs_dir, cid + ".crt.pem"),
                       "private_key_path": os.path.join(certs_dir, cid + ".pk.pem")}
            elif role == "chal":
                obs = {"identifier": kv.get("identifier"), "challenge": kv.get("challenge"), "is_clean_hook": kv.get("is_clean_hook")}
                exp = {"identifier": (cur_authz or {}).get("ident", {}).get("value"), "challenge": cur_type[len("challenge-"):].replace("-clean", ""),
                       "is_clean_hook": "true" if cur_type.endswith("-clean") else "false"}
            io_o, io_e = "none", "none"
            if e.get("stdin") is not None:
                io_o = e["stdin"]
                io_e = "%s|%s" % (kv.get("proof", ""), kv.get("identifier", ""))
            out.append({"e": "End", "hook": e["hook"], "exit": int(e.get("exit", 0)), "envs": envs, "role": role,
                        "obs": {"vars": {k: project.nz(v) for k, v in obs.items()} or {"none": "none"}, "io": io_o},
                        "exp": {"vars": {k: project.nz(v) for k, v in exp.items()} or {"none": "none"}, "io": io_e}})
    return out


def run(ctx):
    rng = random.Random(ctx.seed)
    r = tlc.model_check("Hooks", MC_CFG % tlc.tla_set(LABELS), "C10_mc", workers=8, timeout=1500,
                        required_actions=["MCBegin", "MCRun", "MCEndHook", "MCFinish", "MCWrite"])
    if r["violated"] or r["vacuous_actions"]:
        raise ToolError("Hooks: model inconsistent: %s %s (%s)" % (r["violated"], r["vacuous_actions"], r["out_path"]))
    confs = tlc.replays(r["raw"])
    # only configurations that can issue at all: a failing hook without allow_failure on the challenge/file path still is a scenario
    n = 2500 if ctx.tier == "thorough" else 150
    sample = rng.sample(confs, min(n, len(confs)))
    specs = [build_spec(i, rc, "C10/s%04d" % i) for i, rc in enumerate(sample)]
    # the same kind of configuration with files already there: an existing file is edited, whatever is in it
    m = 240 if ctx.tier == "thorough" else 20
    for j, rc in enumerate(rng.sample(confs, min(m, len(confs)))):
        specs.append(build_spec(len(sample) + j, rc, "C10/p%04d" % j, pre=("emptykey", "pair", "emptyboth", "dangling")[j % 4]))
    # and for a wildcard name: the variable `identifier` is the name under validation (the authorization's), not the configured string
    w = 120 if ctx.tier == "thorough" else 16
    for j, rc in enumerate(rng.sample(confs, min(w, len(confs)))):
        specs.append(build_spec(len(sample) + m + j, rc, "C10/w%04d" % j, wildcard=True))
    results = flows.run_many(specs, workers=12)
    lines, owner = [], []
    for i, x in enumerate(results):
        if any(y["hung"] for y in x["runs"]):
            raise ToolError("daemon hung in hook configuration %s" % x["meta"]["rc"])
        for e in hooks_layer(x):
            lines.append(e)
            owner.append(i)
    root = fresh_dir("C10", "tv")
    path = os.path.join(root, "hooks.ndjson")
    open(path, "w").write("".join(json.dumps(e) + "\n" for e in lines))
    tv = tlc.validate_trace("Trace_Hooks", TRACE_CFG % tlc.tla_set(LABELS), "C10_tv", path, timeout=1800, heap="8g")
    if tv["hard_errors"] or tv["unmatched"] is not None:
        raise ToolError("TLC failed on the hooks trace: %s unmatched=%s %s (%s)" % (tv["hard_errors"][:2], tv["unmatched"],
                        lines[tv["unmatched"] - 1] if tv["unmatched"] else "", tv["out_path"]))
    seen = set()
    for ln, labs in tv["bad"]:
        o = owner[ln - 1]
        key = tuple(labs) + ((o,) if labs != ["C10_Env"] else ())
        if key in seen:
            continue
        seen.add(key)
        x = results[o]
        ev = lines[ln - 1]
        short = {k: ev[k] for k in ev if k not in ("envs",)}
        if "C10_Env" in labs:
            short["env_mismatch"] = [v for v in ev["envs"] if v["value"] != ("ident" if (v["i"] and ev["role"] == "chal") else "cert" if v["c"] else "glob" if v["g"] else "proc" if v["p"] else "absent")][:4]
        rp = save_replay("C10", os.path.basename(x["tag"]), {"scenario.json": {k: v for k, v in x["meta"].items() if k not in ("flow", "hook_types")},
                                                            "trace.ndjson": os.path.join(x["world"], "trace.ndjson"), "violated.json": {"labels": labs, "event": ev}})
        ctx.verdict.violation("%s in configuration %s at %s" % (labs, x["meta"]["rc"], json.dumps(short)[:500]), rp)
    tpl_cov = template_family(ctx)
    import groupcheck
    gbad, gcov = groupcheck.run_family("C10/groups", ctx.tier, ctx.seed + 1, groupcheck.LABELS_C10)
    for k, (labs, ev) in enumerate(gbad[:10]):
        rp = save_replay("C10", "groups%03d" % k, {"graph.json": ev, "violated.json": labs})
        ctx.verdict.violation("%s: hook groups %s listed as %s by the %s gave %s %s %s" % (labs, json.dumps(ev["bodies"]), ev["start"], ev["where"], ev["obs"]["kind"], ev["obs"]["hooks"], ev["detail"]), rp)
    calls = sum(1 for e in lines if e["e"] == "Call")
    ends = sum(1 for e in lines if e["e"] == "End")
    aborted = sum(1 for e in lines if e["e"] == "End" and e["exit"] != 0)
    cov = {"states": r["distinct"], "transitions": r["generated"], "traces_validated_against_impl": len(results),
           "samples": [results[0]["meta"]["rc"], results[-1]["meta"]["rc"]], "configurations_in_model": len(confs),
           "configurations_run": len(results), "hook_calls_judged": calls, "hook_runs_judged": ends, "failing_hook_runs": aborted,
           "env_patterns_per_hook_run": len(PATTERNS), "template_forms": tpl_cov, "hook_group_graphs": gcov, "exhaustive": False,
           "rule": "TLC enumerates hook lists (3 hooks x 7 type profiles (two of them mixing file and certificate event types) x allow_failure x exit code, 2 nested groups, 6 list shapes = 131712 configurations) and checks the "
                   "call semantics on each; a seeded sample (quick 150, thorough 2500) becomes real configurations with the recorder as command; two attempts each "
                   "(first issuance + renewal: create and edit brackets); 16 environment variables per run cover every presence pattern over process/global/"
                   "certificate/identifier levels; Template.tla enumerates template shapes (literals, variables, undefined variables, if/else on booleans and undefined, "
                   "comments, the rev_labels and default filters, a final newline; sequences of up to 2 (quick) or 3 (thorough) segments) and every one is passed to hooks of "
                   "each event family as an argument; Groups.tla enumerates hook-group graphs (3 groups, 2 hooks; exhaustive for bodies of one name, sampled for two) and the "
                   "expanded list the real loader builds is compared with the specification's Expand"}
    return {"coverage": cov, "assumptions": ["hook names of the account list and of the certificate list are disjoint by construction",
                                            "account hooks are not judged for the environment layering (the manual does not say whether global env applies to them)"]}
