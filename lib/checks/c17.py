"""C17 - no hostile or failed connection stops tacd from serving the next validation."""
import concurrent.futures as cf, hashlib, json, os, random
import tlc, tacdlib
from common import fresh_dir, ToolError, save_replay, build_tacd

NEEDS = ["tacd", "tacd_release"]
LABELS = ["C17_Alive", "C17_NextValidServed", "C16_Selected", "C16_San", "C16_AcmeId", "C16_SelfSignedValid"]
MC_CFG = """SPECIFICATION Spec
CONSTANTS
  Enforce = %s
  Deviations = %s
  MaxHist = %d
INVARIANTS NoBad Emit
CHECK_DEADLOCK FALSE
"""
TRACE_CFG = """SPECIFICATION TSpec
CONSTANTS
  Enforce = %s
  Deviations = {}
  MaxHist = 0
POSTCONDITION Accepted
CHECK_DEADLOCK FALSE
"""


NOFILE = 96     # descriptor limit the daemon runs under, so that exhaustion needs 100 connections and not 1000


def run_history(args):
    idx, hist, root, release = args
    digest = hashlib.sha256(b"c17-%d" % idx).digest()
    domain = "h%d.example.org" % idx
    t = tacdlib.Tacd(os.path.join(root, "t%05d%s" % (idx, "r" if release else "d")), domain, tacdlib.proof_text(digest), release=release,
                     listener="unix" if idx % 5 == 4 else "tcp", nofile=NOFILE)
    ev = [{"e": "Reset", "domain": "dns:" + domain, "value": "0420" + digest.hex(), "history": hist, "build": "release" if release else "debug"}]
    try:
        if not t.started:
            ev.append({"e": "Alive", "alive": False, "exit": t.exit_status() if t.exit_status() is not None else -999, "after": "start"})
            return idx, ev
        for b in hist:
            if b == "valid":
                res = t.tls([tacdlib.ACME], sni=domain)
                ev.append({"e": "Tls", "offer": [tacdlib.ACME], "res": res, "validation": True})
            else:
                t.hostile(b)
                ev.append({"e": "Hostile", "kind": b})
            a = t.alive()
            ev.append({"e": "Alive", "alive": a, "exit": t.exit_status() if t.exit_status() is not None else 0, "after": b})
            if not a:
                break
        t.release_stalled()
    finally:
        t.stop()
    return idx, ev


def run(ctx):
    depth = 4 if ctx.tier == "thorough" else 2
    r = tlc.model_check("Tacd", MC_CFG % (tlc.tla_set(LABELS), "{}", depth), "C17_mc", workers=4, timeout=900, required_actions=["Next"])
    if r["violated"]:
        raise ToolError("Tacd: model inconsistent (%s)" % r["out_path"])
    rd = tlc.model_check("Tacd", MC_CFG % (tlc.tla_set(LABELS), '{"HandshakeFailPanics", "PanicAbort"}', 2), "C17_dev", workers=2, timeout=600)
    if not rd["violated"]:
        raise ToolError("Tacd model sanity: unwrap + panic=abort is not caught")
    rd2 = tlc.model_check("Tacd", MC_CFG % (tlc.tla_set(LABELS), '{"AcceptErrorEndsLoop"}', 2), "C17_dev2", workers=2, timeout=600)
    if not rd2["violated"]:
        raise ToolError("Tacd model sanity: an accept loop that ends on an accept() error is not caught")
    rd3 = tlc.model_check("Tacd", MC_CFG % (tlc.tla_set(LABELS), '{"DeadlineSetOnce"}', 2), "C17_dev3", workers=2, timeout=600)
    if not rd3["violated"]:
        raise ToolError("Tacd model sanity: a listener that stops serving once it is older than its time limit is not caught")
    hists, seen = [], set()
    for h in tlc.replays(r["raw"]):
        k = tuple(h)
        if k not in seen and len(h) > 1:
            seen.add(k)
            hists.append(h)
    rng = random.Random(ctx.seed)
    if ctx.tier != "thorough":
        # a slow peer costs 33 s of wall time: the quick tier keeps four of the histories that contain one (they run beside the others)
        slow = [h for h in hists if "slow_peer" in h]
        keep = [["slow_peer", "valid"]] + [h for h in slow if h[0] != "slow_peer" or len(h) > 2][ctx.seed % 5::7][:3]
        hists = [h for h in hists if "slow_peer" not in h] + keep
    else:
        # thorough: forty of them (each costs 33 s per slow peer in it), every other history in full
        slow = [h for h in hists if "slow_peer" in h]
        hists = [h for h in hists if "slow_peer" not in h] + [["slow_peer", "valid"]] + rng.sample(slow, min(40, len(slow)))
    if ctx.tier != "thorough":
        # all histories of length <= 2, plus a sample of longer ones taken from a deeper model run
        r3 = tlc.model_check("Tacd", MC_CFG % (tlc.tla_set(LABELS), "{}", 4), "C17_mc4", workers=4, timeout=900)
        longer = [h for h in {tuple(x) for x in tlc.replays(r3["raw"])} if len(h) > 3 and "slow_peer" not in h]
        hists += [list(h) for h in rng.sample(sorted(longer), 25)]
    root = fresh_dir("C17", "runs")
    jobs = [(i, h, root, True) for i, h in enumerate(hists)]
    # the debug build for contrast (a panic there does not abort the process): a sample
    jobs += [(10000 + i, h, root, False) for i, h in enumerate(hists[:: max(1, len(hists) // 12)])]
    jobs.sort(key=lambda j: "slow_peer" not in j[1])      # the long ones first
    lines, owner = [], []
    with cf.ThreadPoolExecutor(max_workers=12) as ex:
        for idx, ev in ex.map(run_history, jobs):
            for e in ev:
                lines.append(e)
                owner.append(idx)
    path = os.path.join(root, "tacd.ndjson")
    open(path, "w").write("".join(json.dumps(e) + "\n" for e in lines))
    tv = tlc.validate_trace("Trace_Tacd", TRACE_CFG % tlc.tla_set(LABELS), "C17_tv", path, timeout=1800)
    if tv["hard_errors"] or tv["unmatched"] is not None:
        raise ToolError("TLC failed on the tacd trace: %s %s (%s)" % (tv["hard_errors"][:2], tv["unmatched"], tv["out_path"]))
    seenv = set()
    for ln, labs in tv["bad"]:
        o = owner[ln - 1]
        if o in seenv:
            continue
        seenv.add(o)
        j = [x for x in jobs if x[0] == o][0]
        rp = save_replay("C17", "hist%05d" % o, {"history.json": {"history": j[1], "build": "release" if j[3] else "debug"}, "violated.json": {"labels": labs, "event": lines[ln - 1]}})
        ctx.verdict.violation("%s after history %s (%s build) at %s" % (labs, j[1], "release" if j[3] else "debug", json.dumps(lines[ln - 1])[:200]), rp)
    rel = sum(1 for j in jobs if j[3])
    cov = {"states": r["distinct"], "transitions": r["generated"], "traces_validated_against_impl": len(jobs),
           "samples": [jobs[0][1], jobs[len(jobs) // 2][1], jobs[-1][1]], "histories_release_build": rel, "histories_debug_build": len(jobs) - rel,
           "connections_made": sum(1 for e in lines if e["e"] in ("Tls", "Hostile")), "valid_handshakes_judged": sum(1 for e in lines if e["e"] == "Tls"),
           "max_history_length": max(len(j[1]) for j in jobs) - 1, "exhaustive": ctx.tier == "thorough",
           "rule": "TLC enumerates every ordered selection of up to %d behaviours from the catalogue (connect+close, connect+reset, a peer trickling its ClientHello for 33 s, garbage, plain HTTP, TLS without ALPN, TLS with foreign "
                   "ALPN, handshake abandoned after ClientHello, 50 stalled connections) followed by a valid handshake; each history is run against a fresh tacd built with "
                   "the shipped release profile (panic=abort) - and a sample against the debug build -, the process is probed after every connection and the final "
                   "handshake is judged like in C16" % depth}
    return {"coverage": cov, "assumptions": ["the release profile is the one of the workspace Cargo.toml (opt-level z, lto thin, panic=abort)"]}
