"""X01 (not a listed property) - start-up life-cycle of acmed and tacd: pid file, detaching, exit codes."""
import json, os, signal, subprocess, time, hashlib
import tlc, tacdlib
from common import fresh_dir, ToolError, save_replay, ACMED, TACD_DEBUG
from daemon import toml_dumps
from mockca import MockCA, TraceWriter
import vcrypto

NEEDS = ["acmed", "tacd"]
LABELS = ["L_PidFileNamesTheProcess", "L_NoPidFileWhenDisabled", "L_PidFileRemovedOnFailedStart", "L_ExitCode", "L_Detaches"]
MC_CFG = "SPECIFICATION MCSpec\nCONSTANTS\n  Enforce = %s\nINVARIANTS NoBad Emit\nCHECK_DEADLOCK FALSE\n"
TRACE_CFG = "SPECIFICATION TSpec\nCONSTANTS\n  Enforce = %s\nPOSTCONDITION Accepted\nCHECK_DEADLOCK FALSE\n"


def pid_alive(pid):
    return os.path.exists("/proc/%d" % pid) and "Z" not in open("/proc/%d/stat" % pid).read().split(")")[1][:3]


def run_point(i, pt, root, ca_url):
    d = os.path.join(root, "p%03d" % i)
    os.makedirs(d, exist_ok=True)
    pidf = os.path.join(d, "daemon.pid")
    if pt["daemon"] == "acmed":
        cfg = {"global": {"accounts_directory": os.path.join(d, "acc"), "certificates_directory": os.path.join(d, "crt")},
               "endpoint": [{"name": "E", "url": ca_url, "tos_agreed": True}], "account": [{"name": "a", "contacts": [{"mailto": "a@example.org"}]}],
               "certificate": [{"name": "c", "account": "a", "endpoint": "E" if pt["input"] != "bad_config" else "missing", "key_type": "ecdsa_p256", "hooks": [],
                                "identifiers": [{"dns": "lc%d.example.org" % i, "challenge": "http-01"}]}]}
        conf = os.path.join(d, "acmed.toml")
        open(conf, "w").write(toml_dumps(cfg))
        cmd = [ACMED, "-c", conf, "--log-stderr"]
    else:
        digest = hashlib.sha256(b"x01").digest()
        ext = tacdlib.proof_text(digest) if pt["input"] != "bad_config" else "not an extension"
        cmd = [TACD_DEBUG, "--listen", "unix:" + os.path.join(d, "t.sock"), "--domain", "lc%d.example.org" % i, "--acme-ext", ext, "--log-stderr"]
    cmd += ["--log-level", "debug" if pt["input"] != "bad_log_level" else "chatty"]
    if pt["mode"] == "foreground":
        cmd.append("-f")
    cmd += ["--pid-file", pidf] if pt["pidopt"] == "file" else ["--no-pid-file"]
    env = dict(os.environ)
    env.pop("ACMED_VERIF_TRACE", None)
    env["ACMED_VERIF_TIME_SCALE"] = "1"      # real sleeps: the daemon must stay around
    p = subprocess.Popen(cmd, stdout=subprocess.DEVNULL, stderr=subprocess.PIPE, env=env)
    time.sleep(0.8)
    rc = p.poll()
    launched_alive = rc is None
    pid_in_file, pf = None, "absent"
    if os.path.exists(pidf):
        try:
            pid_in_file = int(open(pidf).read().strip())
        except ValueError:
            pid_in_file = -1
        pf = "names_process" if pid_in_file and pid_in_file > 0 and pid_alive(pid_in_file) else "stale"
    detached = (not launched_alive) and rc == 0 and (pid_in_file is not None and pid_in_file != p.pid and pid_alive(pid_in_file) or pt["pidopt"] == "none" and _find(cmd) is not None)
    running = launched_alive or bool(detached)
    obs = {"running": bool(running), "exit": rc if rc is not None else 0, "pidfile": pf, "detached": bool(detached)}
    # clean up
    for pid in filter(None, [p.pid if launched_alive else None, pid_in_file if pf == "names_process" else None, _find(cmd)]):
        try:
            os.kill(pid, signal.SIGKILL)
        except OSError:
            pass
    try:
        p.wait(timeout=3)
    except Exception:
        pass
    return dict(pt, obs=obs, argv=" ".join(cmd[1:]))


def _find(cmd):
    """pid of a detached process started with exactly this command line (no pid file to ask)"""
    want = "\0".join(cmd)
    for e in os.listdir("/proc"):
        if e.isdigit():
            try:
                c = open("/proc/%s/cmdline" % e, "rb").read().decode("utf-8", "replace").strip("\0")
            except OSError:
                continue
            if c == want:
                return int(e)
    return None


def run(ctx):
    r = tlc.model_check("Lifecycle", MC_CFG % tlc.tla_set(LABELS), "X01_mc", workers=2, timeout=300, required_actions=["MCNext"])
    if r["violated"]:
        raise ToolError("Lifecycle: model inconsistent (%s)" % r["out_path"])
    pts = tlc.replays(r["raw"])
    root = fresh_dir("X01", "runs")
    tw = TraceWriter(os.path.join(root, "ca.ndjson"))
    ca = MockCA("E", tw, vcrypto.shared())
    lines = [run_point(i, pt, root, ca.url) for i, pt in enumerate(pts)]
    ca.stop()
    path = os.path.join(root, "lifecycle.ndjson")
    open(path, "w").write("".join(json.dumps(e) + "\n" for e in lines))
    tv = tlc.validate_trace("Trace_Lifecycle", TRACE_CFG % tlc.tla_set(LABELS), "X01_tv", path, timeout=300)
    if tv["hard_errors"] or tv["unmatched"] is not None:
        raise ToolError("TLC failed on the lifecycle trace: %s %s (%s)" % (tv["hard_errors"][:2], tv["unmatched"], tv["out_path"]))
    for ln, labs in tv["bad"]:
        rp = save_replay("X01", "pt%03d" % ln, {"point.json": lines[ln - 1], "violated.json": labs})
        ctx.verdict.violation("%s at %s" % (labs, lines[ln - 1]), rp)
    cov = {"states": r["distinct"], "transitions": r["generated"], "traces_validated_against_impl": len(lines), "samples": lines[:2],
           "exhaustive": True, "rule": "daemon x foreground/background x pid file on/off x {good input, refused configuration, bad log level}: all 24 points run against the real binaries"}
    return {"coverage": cov, "assumptions": ["not one of the listed properties: coverage growth of the specification (DESIGN.md section 3)"]}
