"""C07 - failures are contained and reported; the daemon keeps serving."""
import itertools, random
import flows, flowcheck
from common import ToolError
from daemon import standard_hooks, rec_hook, CHALLENGE_KV, FILE_KV, POSTOP_KV
from scenario import simple_cert

NEEDS = ["acmed"]


def hook_exit_specs(tier, seed):
    """Each hook position x exit code kind x allow_failure."""
    specs = []
    base = standard_hooks()
    names = [h["name"] for h in base if h["name"] in ("chall-http-01", "clean-http-01", "file-pre-create", "file-post-create",
                                                        "file-pre-edit", "file-post-edit", "post-operation")]
    cert = simple_cert("c1", ids=[{"dns": "a.example.org", "challenge": "http-01"}])
    for nm in names:
        for code, extra in (("3", []), ("0", ["--signal"]), ("255", [])):
            for allow in (False, True):
                hooks = []
                for h in base:
                    h = dict(h)
                    if h["name"] == nm:
                        h = dict(h, args=["--hook", nm, "--exit-seq", code] + extra + h["args"][4:], allow_failure=allow)
                    hooks.append(h)
                sp = dict(tag="C07/h%03d" % len(specs), certs=[cert], attempts=2, hooks=hooks,
                          meta={"family": "hook exit", "hook": nm, "exit": code, "signal": bool(extra), "allow_failure": allow})
                steps = [("run", {})]
                if "edit" in nm:
                    steps = [("call", flowcheck.install_pair(cert, "pair")), ("run", {})]
                sp["steps"] = steps
                specs.append(flowcheck.prepare(sp))
    return specs


def fault_and_hook_specs(tier, seed, pos):
    """A fault in the attempt AND a post-operation hook that ends badly (exit code, signal), with and without allow_failure."""
    specs = []
    base = standard_hooks()
    cert = simple_cert("c1", ids=[{"dns": "a.example.org", "challenge": "http-01"}])
    posts = [(k, n) for (k, n, m) in pos if m == "POST"]
    picks = posts if tier == "thorough" else [posts[0], posts[len(posts) // 2], posts[-1]]
    for (kind, nth) in picks:
        for fault in ("acme:unauthorized:403", "drop_after", "err:nonjson:500"):
            for code, extra in (("1", []), ("3", []), ("0", ["--signal"])):
                for allow in (False, True):
                    hooks = []
                    for h in base:
                        h = dict(h)
                        if h["name"] == "post-operation":
                            h = dict(h, args=["--hook", "post-operation", "--exit-seq", code] + extra + h["args"][4:], allow_failure=allow)
                        hooks.append(h)
                    sp = dict(tag="C07/fh%03d" % len(specs), certs=[cert], attempts=3, hooks=hooks,
                              endpoints={"A": {"script": [{"kind": kind, "nth": nth, "fault": fault, "repeat": 1}, {"kind": kind, "nth": nth + 1, "fault": fault, "repeat": 40}]}},
                              meta={"family": "fault and failing post-operation hook", "kind": kind, "fault": fault, "exit": code, "signal": bool(extra), "allow_failure": allow})
                    specs.append(flowcheck.prepare(sp))
    return specs


def multi_cert_specs(tier, seed):
    """1..6 certificates sharing one account and one endpoint; any subset fails for ever (its authorizations are invalid)."""
    specs = []
    sizes = range(1, 7) if tier == "thorough" else (1, 2, 3, 4)
    for n in sizes:
        names = ["m%d" % i for i in range(n)]
        subsets = [s for k in range(0, n + 1) for s in itertools.combinations(range(n), k)]
        if tier != "thorough" and len(subsets) > 8:
            rng = random.Random(seed + n)
            subsets = rng.sample(subsets, 8)
        for broken in subsets:
            certs = [simple_cert(nm, ids=[{"dns": "%s.example.org" % nm, "challenge": "http-01"}]) for nm in names]
            bad_ids = {"%s.example.org" % names[i]: "invalid" for i in broken}
            healthy = {}
            sp = dict(tag="C07/n%03d" % len(specs), certs=certs, attempts=2, endpoints={"A": {"ca": {"authz_status": bad_ids}}},
                      meta={"family": "multi cert", "n": n, "broken": [names[i] for i in broken]})
            sp = flowcheck.prepare(sp)
            for cid in sp["meta"]["flow"]:
                healthy[cid] = not any(cid.startswith(names[i] + "_") for i in broken)
            sp["meta"]["healthy"] = healthy
            specs.append(sp)
    return specs


def run(ctx):
    mc = flowcheck.model_check("C07", ctx.tier)
    cert = simple_cert("c1", ids=[{"dns": "a.example.org", "challenge": "http-01"}, {"dns": "b.example.org", "challenge": "dns-01"}])
    pos, _ = flows.baseline_positions("C07/base", [flowcheck.prepare(dict(certs=[cert]))["certs"][0]])
    specs = flows.single_fault_specs("C07", cert, pos, ctx.tier, ctx.seed, attempts=2, quick_stride=7, pre_modes=("none",),
                                     dense_kinds=tuple({k for k, _, m in pos if m == "POST"}), dense_cells=[("none", False)])
    specs += flows.multi_fault_specs("C07", cert, pos, 300 if ctx.tier == "thorough" else 30, ctx.seed + 1, attempts=3)
    # objects that never reach the awaited status, the CA sending Retry-After with every poll answer: the attempt still has to end
    for ca in ({"authz_polls": 10 ** 6}, {"order_polls": 10 ** 6}, {"ready_polls": 10 ** 6}):
        for ra in (None, 0, 2):
            specs.append(flowcheck.prepare(dict(tag="C07/p%03d" % len(specs), certs=[cert], attempts=2, endpoints={"A": {"ca": dict(ca, retry_after=ra)}},
                                                meta={"family": "object never ready", "ca": dict(ca, retry_after=ra)})))
    # the post-operation hook is ALSO listed for file events (an audit/reload hook): it still reports every attempt exactly once
    for fault in (None, "acme:unauthorized:403"):
        hooks = []
        for h in standard_hooks():
            h = dict(h)
            if h["name"] == "post-operation":
                h["type"] = ["file-post-create", "file-post-edit", "post-operation"]
            hooks.append(h)
        script = [{"kind": "finalize", "nth": 1, "fault": fault, "repeat": 1}] if fault else []
        specs.append(flowcheck.prepare(dict(tag="C07/x%03d" % len(specs), certs=[cert], attempts=2, hooks=hooks, endpoints={"A": {"script": script}},
                                            meta={"family": "post-operation hook that is also a file hook", "fault": fault})))
    # problem documents with a long human-readable detail in any language (RFC 7807: "detail" is free text): the attempt fails and is
    # reported like any other, whatever the length and the letters
    letters = [("é", 600), ("é", 1100), ("日", 1100), ("日", 3000), ("😀", 1500), ("a", 3000), ("ю", 2100), ("é", 5000)]
    if ctx.tier != "thorough":
        letters = letters[:5]
    for letter, nb in letters:
        for kind in ("newOrder", "finalize", "challenge"):
            # four attempts, so four different leads
            specs.append(flowcheck.prepare(dict(tag="C07/d%03d" % len(specs), certs=[cert], attempts=4,
                                                endpoints={"A": {"ca": {"detail_style": [letter, nb]}, "script": [{"kind": kind, "nth": 1, "fault": "acme:unauthorized:403", "repeat": 10 ** 6}]}},
                                                meta={"family": "long error text", "letter": letter, "bytes": nb, "kind": kind})))
    # problem documents with the optional members of RFC 7807 / RFC 8555 6.7.1 (an empty or a filled list of sub-problems, instance, title):
    # the CA's message is reported whatever else the document holds
    for style in ("subproblems_empty", "subproblems", "instance"):
        for kind in ("newOrder", "finalize", "challenge", "newAccount"):
            for fault in ("acme:unauthorized:403", "acme:rejectedIdentifier:400"):
                specs.append(flowcheck.prepare(dict(tag="C07/q%03d" % len(specs), certs=[cert], attempts=2,
                                                    endpoints={"A": {"ca": {"problem_style": style}, "script": [{"kind": kind, "nth": 1, "fault": fault, "repeat": 1}]}},
                                                    meta={"family": "problem document with optional members", "style": style, "kind": kind, "fault": fault})))
    # a failed attempt that took more than a minute of REAL time (a slow challenge hook): the pause is counted from its end
    slow = []
    for h in standard_hooks():
        h = dict(h)
        if h["name"] == "chall-http-01":
            h = dict(h, args=h["args"][:2] + ["--sleep-ms", "61500"] + h["args"][2:])
        slow.append(h)
    specs.insert(0, flowcheck.prepare(dict(tag="C07/slow", certs=[simple_cert("slow1", ids=[{"dns": "slow.example.org", "challenge": "http-01"}])], attempts=2, hooks=slow, timeout=240,
                                           endpoints={"A": {"script": [{"kind": "finalize", "nth": 1, "fault": "acme:unauthorized:403", "repeat": 1}]}},
                                           meta={"family": "failed attempt longer than the pause", "real_seconds": 61.5})))
    specs += flowcheck.prestate_specs("C07")
    specs += hook_exit_specs(ctx.tier, ctx.seed)
    specs += fault_and_hook_specs(ctx.tier, ctx.seed, pos)
    specs += multi_cert_specs(ctx.tier, ctx.seed)
    results = flows.run_many(specs, workers=12)
    bad, stats, path = flowcheck.validate("C07/tv", results, flowcheck.L07)
    flowcheck.report(ctx, "C07", results, bad)
    # a daemon that never comes back breaks "ends each attempt in bounded time": DaemonEnd(clean = FALSE) is judged by the spec (C07_Alive)
    fb, fstats, _ = flowcheck.validate("C07/fid", results, flowcheck.ALL)
    fam = {}
    for r in results:
        fam[r["meta"]["family"]] = fam.get(r["meta"]["family"], 0) + 1
    attempts = sum(1 for r in results for e in r["events"] if e.get("ev") == "AttemptEnd")
    failed = sum(1 for r in results for e in r["events"] if e.get("ev") == "AttemptEnd" and not e.get("is_success"))
    cov = {"states": mc["states"], "transitions": mc["transitions"], "traces_validated_against_impl": len(results),
           "samples": [{k: v for k, v in r["meta"].items() if k not in ("flow", "healthy")} for r in results[:2] + results[-2:]],
           "model": mc, "trace_validation": stats, "families": fam, "attempts_observed": attempts, "failed_attempts_observed": failed,
           "model_fidelity": {"all_labels_clean": not fb, "bad": [({k: v for k, v in results[i]["meta"].items() if k not in ("flow", "healthy")}, l) for i, l, _ in fb[:5]]},
           "exhaustive": False,
           "rule": "objects that never become ready (with and without Retry-After on the poll answers); single faults at every request position (quick: every ACME error type at every POST position answered once, the other faults as a rotating 1/7 sample; 2 attempts each: the pause is measured in virtual time between AttemptEnd(fail) and the next "
                   "AttemptStart), random multi-fault runs over 3 attempts, every hook position x exit code/signal x allow_failure, 1..6 certificates on one "
                   "account and endpoint with failing subsets (healthy ones must be issued)"}
    return {"coverage": cov, "assumptions": [
        "sleeps are virtualised by the feature build: a pause counts if the nominal virtual time or the daemon's own monotonic clock shows >= 1 s",
        "non-interference is checked in bounded form: every healthy certificate is issued within the attempt budget of the run"]}
