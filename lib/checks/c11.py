"""C11 - accounts are registered once, kept in step with the configuration, and durable."""
import base64, json, os, random, shutil
import tlc, flows, flowcheck, project
from common import fresh_dir, ToolError, save_replay
from scenario import simple_cert, Scenario

NEEDS = ["acmed"]
LABELS = ["C11_CreateOnlyWhen", "C11_InStepAfterRenew", "C11_OneUpdatePerItem", "C11_RollOverByRecordedKey", "C11_EndpointsIndependent",
          "C11_Durable", "C11_CorruptRefuses"]
EPS = ["A", "B", "C"]
MC_CFG = """SPECIFICATION Spec
CONSTANTS
  Enforce = %s
  Deviations = %s
  Endpoints = {%s}
  MaxHist = %d
  NoVal = 0
INVARIANT NoBad
CHECK_DEADLOCK FALSE
"""
TRACE_CFG = """SPECIFICATION TSpec
CONSTANTS
  Enforce = %s
  Deviations = {}
  Endpoints = {"A", "B", "C"}
  MaxHist = 0
  NoVal = "none"
POSTCONDITION Accepted
CHECK_DEADLOCK FALSE
"""
KEYS = ["ecdsa_p256", "ecdsa_p384", "rsa2048", "ed25519", "ecdsa_p521", "ed448", "rsa4096"]


def model(tier):
    out = {"states": 0, "transitions": 0, "runs": []}
    for eps, hist in ((["A"], 6), (["A", "B"], 6), (["A", "B", "C"], 5 if tier == "thorough" else 4)):
        r = tlc.model_check("Account", MC_CFG % (tlc.tla_set(LABELS), "{}", ",".join('"%s"' % e for e in eps), hist), "C11_mc", workers=8, timeout=1500,
                            required_actions=["EditContacts", "EditKey", "EditBoth", "EditEab", "Restart", "Next"])
        if r["violated"]:
            raise ToolError("Account: the model violates %s (%s)" % (r["violated"], r["out_path"]))
        out["states"] += r["distinct"]
        out["transitions"] += r["generated"]
        out["runs"].append({"endpoints": eps, "history_length": hist, "states": r["distinct"]})
    devs = {}
    for d in ("KeyTypeEditIgnored", "ContactsBeforeKey", "EabReRegisterSkipsContacts", "KeyHashSavedWithContacts", "ReRegisterClaimsContacts"):
        r = tlc.model_check("Account", MC_CFG % (tlc.tla_set(LABELS), '{"%s"}' % d, '"A","B"', 6), "C11_dev", workers=4, timeout=600)
        devs[d] = bool(r["violated"])
        if not r["violated"]:
            raise ToolError("Account model sanity: deviation %s not caught" % d)
    out["deviations_detected_by_model"] = devs
    return out


def contacts_str(lst):
    return ",".join("mailto:" + x for x in lst) if lst else "none"


class Hist:
    """Builds the steps of one history."""

    def __init__(self, tag, ops, key0="ecdsa_p256", meta=None):
        self.contacts = ["first@example.org"]
        self.kt = key0
        self.eab = None
        self.ops = ops
        self.tag = tag
        self.meta = dict(meta or {}, ops=[list(o) for o in ops], key0=key0)
        self.eab_keys = {}

    def account(self):
        a = {"name": "acc1", "contacts": [{"mailto": c} for c in self.contacts], "key_type": self.kt}
        if self.eab:
            a["external_account"] = {"identifier": self.eab, "key": self.eab_keys[self.eab]}
        return a

    def spec(self):
        certs_by_ep = {e: simple_cert("c" + e, endpoint=e) for e in EPS}
        steps = []
        rng = random.Random(hash(self.tag) & 0xffff)
        for kid in ("kidA", "kidB"):
            self.eab_keys[kid] = base64.urlsafe_b64encode(bytes(rng.randrange(256) for _ in range(32))).rstrip(b"=").decode()

        def runner(certs):
            acct = self.account()
            cfgev = {"src": "drv", "ev": "AcctCfg", "c": contacts_str(self.contacts), "kt": self.kt, "eab": self.eab or "none"}

            def f(sc):
                sc.accounts = [acct]
                prepared = flowcheck.prepare(dict(certs=certs))["certs"] if certs else []
                sc.certs = prepared
                sc.tw.emit(cfgev)
            return f
        for op in self.ops:
            k = op[0]
            if k == "contacts":
                self.contacts = list(op[1])
            elif k == "key":
                self.kt = op[1]
            elif k == "both":
                self.contacts, self.kt = list(op[1]), op[2]
            elif k == "eab":
                self.eab = op[1]
            elif k == "restart":
                steps += [("call", runner([])), ("run", {"attempts": 1})]
            elif k == "renew":
                steps += [("call", runner([certs_by_ep[op[1]]])), ("run", {"attempts": 1})]
            elif k == "refuse":
                # the CA answers its next account-update requests on op[1] with an error of its own
                def setr(sc, e=op[1], typ=op[2], kind=(op[3] if len(op) > 3 else "account")):
                    ca = sc.cas[e]
                    with ca.mu:
                        ca.script = [{"kind": kind, "nth": ca.kind_count.get(kind, 0) + 1, "repeat": 1, "fault": "acme:" + typ + (":403" if typ == "unauthorized" else "")}]
                steps.append(("call", setr))
            elif k == "relink":
                # the administrator keeps the account file elsewhere (another volume, a restored backup) and leaves a symbolic link in its place:
                # nothing changes for the daemon, the link is followed for reading and for writing
                def relink(sc):
                    adir = sc.world.accounts
                    for fn in sorted(os.listdir(adir)):
                        p = os.path.join(adir, fn)
                        if fn.endswith(".account.bin") and not os.path.islink(p):
                            store = os.path.join(os.path.dirname(adir), "keystore")
                            os.makedirs(store, exist_ok=True)
                            os.rename(p, os.path.join(store, fn))
                            os.symlink(os.path.join(store, fn), p)
                steps.append(("call", relink))
            elif k == "forget":
                steps.append(("call", (lambda e: (lambda sc: sc.cas[e].forget_account()))(op[1])))
        order = self.meta.get("contact_order") or ("as_sent", "reversed", "sorted")[hash(self.tag) % 3 if False else (sum(map(ord, self.tag)) % 3)]
        self.meta["contact_order"] = order
        eps = {e: {"ca": {"eab_keys": dict(self.eab_keys), "contact_order": order}} for e in EPS}
        sp = dict(tag=self.tag, certs=[], endpoints=eps, accounts=[{"name": "acc1", "contacts": [{"mailto": "first@example.org"}]}],
                  steps=steps, meta=dict(self.meta, family=self.meta.get("family", "history")))
        sp["meta"]["flow"] = {}
        return sp


def histories(tier, seed):
    rng = random.Random(seed)
    H = []
    c1, c2, c3 = ["first@example.org"], ["second@example.org", "third@example.org"], []
    fixed = [
        [("renew", "A"), ("both", c2, "ecdsa_p384"), ("renew", "A")],
        [("renew", "A"), ("contacts", c2), ("renew", "A"), ("restart",), ("renew", "A")],
        [("renew", "A"), ("key", "rsa2048"), ("restart",), ("renew", "A"), ("key", "ed25519"), ("renew", "A")],
        [("renew", "A"), ("renew", "B"), ("both", c2, "ecdsa_p521"), ("renew", "B"), ("renew", "A")],
        [("renew", "A"), ("forget", "A"), ("renew", "A")],
        [("renew", "A"), ("relink",), ("restart",), ("renew", "A"), ("key", "ecdsa_p384"), ("renew", "A")],
        [("renew", "A"), ("renew", "B"), ("relink",), ("contacts", c2), ("renew", "B"), ("renew", "A")],
        [("renew", "A"), ("forget", "A"), ("both", c2, "rsa2048"), ("renew", "A"), ("renew", "A")],
        [("renew", "A"), ("forget", "A"), ("contacts", c2), ("renew", "A")],
        [("renew", "A"), ("eab", "kidA"), ("renew", "A"), ("eab", "kidB"), ("renew", "A"), ("eab", None), ("renew", "A")],
        [("renew", "A"), ("contacts", c2), ("eab", "kidA"), ("renew", "A")],
        [("eab", "kidA"), ("renew", "A"), ("renew", "B"), ("key", "ecdsa_p384"), ("renew", "A"), ("renew", "B")],
        [("renew", "A"), ("key", "ecdsa_p384"), ("restart",), ("key", "ecdsa_p256"), ("restart",), ("renew", "A")],
        [("renew", "A"), ("renew", "B"), ("renew", "C"), ("contacts", c3), ("renew", "B"), ("key", "ed448"), ("renew", "C"), ("renew", "A")],
        [("restart",), ("restart",), ("renew", "A"), ("restart",), ("renew", "A")],
        # the CA accepts the roll-over and refuses the contacts that come with it; later the contacts are acceptable
        [("renew", "A"), ("both", ["refused@example.org"], "ecdsa_p384"), ("refuse", "A", "invalidContact"), ("renew", "A"), ("renew", "A"), ("restart",), ("renew", "A")],
        [("renew", "A"), ("renew", "B"), ("both", c2, "rsa2048"), ("refuse", "B", "unsupportedContact"), ("renew", "B"), ("restart",), ("renew", "B"), ("renew", "A")],
        [("renew", "A"), ("contacts", c2), ("refuse", "A", "invalidContact"), ("renew", "A"), ("key", "ed25519"), ("renew", "A")],
        # a contacts edit followed by renewals and restarts with nothing edited, the CA listing its contacts in an order of its own
        [("renew", "A"), ("contacts", c2), ("renew", "A"), ("renew", "A"), ("restart",), ("renew", "A")],
        [("renew", "A"), ("renew", "B"), ("contacts", ["z@example.org", "a@example.org", "m@example.org"]), ("renew", "A"), ("renew", "B"), ("renew", "A"), ("renew", "B")],
        # the CA's generic refusal (unauthorized) of an account update, a roll-over or an order says nothing about the account being unknown
        [("renew", "A"), ("contacts", c2), ("refuse", "A", "unauthorized"), ("renew", "A"), ("renew", "A")],
        [("renew", "A"), ("key", "ecdsa_p384"), ("refuse", "A", "unauthorized", "keyChange"), ("renew", "A"), ("renew", "A"), ("restart",), ("renew", "A")],
        [("renew", "A"), ("refuse", "A", "unauthorized", "newOrder"), ("renew", "A"), ("renew", "A")],
        # key types that share a signature algorithm
        [("key", "rsa2048"), ("renew", "A"), ("key", "rsa4096"), ("restart",), ("renew", "A"), ("both", c2, "rsa2048"), ("renew", "A")],
        # binding and contacts change together; the contacts update that follows the new registration is refused once
        [("renew", "A"), ("contacts", c2), ("eab", "kidA"), ("refuse", "A", "invalidContact"), ("renew", "A"), ("renew", "A"), ("restart",), ("renew", "A")],
    ]
    for i, ops in enumerate(fixed):
        H.append(Hist("C11/f%02d" % i, ops, meta={"family": "fixed history", "contact_order": ("reversed", "sorted", "as_sent")[i % 3]}))
    n = 150 if tier == "thorough" else 16
    alphabet = ["contacts", "key", "both", "eab", "restart", "renew", "renew", "forget", "refuse"]
    for i in range(n):
        ops = [("renew", "A")] if rng.random() < 0.5 else []
        kt = rng.choice(KEYS[:4])
        for _ in range(rng.randint(3, 6)):
            k = rng.choice(alphabet)
            if k == "contacts":
                ops.append(("contacts", rng.choice([c1, c2, c3, ["x%d@example.org" % rng.randrange(9)]])))
            elif k == "key":
                ops.append(("key", rng.choice(KEYS if tier == "thorough" else KEYS[:5])))
            elif k == "both":
                ops.append(("both", rng.choice([c1, c2, ["y@example.org"]]), rng.choice(KEYS[:5])))
            elif k == "eab":
                ops.append(("eab", rng.choice(["kidA", "kidB", None])))
            elif k == "restart":
                ops.append(("restart",))
            elif k == "renew":
                ops.append(("renew", rng.choice(EPS[:2] if rng.random() < 0.8 else EPS)))
            elif k == "refuse":
                ops.append(("refuse", rng.choice(EPS[:2]), rng.choice(["invalidContact", "unsupportedContact", "unauthorized"])))
            else:
                ops.append(("forget", rng.choice(EPS[:2])))
        ops.append(("renew", rng.choice(EPS[:2])))
        H.append(Hist("C11/r%03d" % i, ops, key0=kt, meta={"family": "random history"}))
    return H


def image(d):
    keys = [d["current_key"]] + list(d["past_keys"])
    by_sha = {k["pub_sha"]: k["thumbprint"] for k in keys}
    ep = {}
    for e in EPS:
        x = d["endpoints"].get(e)
        if not x:
            ep[e] = {"url": "none", "kH": "none", "cH": "none"}
        else:
            ep[e] = {"url": x["account_url"] or "none", "kH": by_sha.get(x["key_hash"], "unknown" if x["key_hash"] else "none"),
                     "cH": x["contacts_hash"] or "none"}
    return {"cur": d["current_key"]["thumbprint"], "kt": d["current_key"]["key_type"] + "/" + d["current_key"]["alg"],
            "past": [k["thumbprint"] for k in d["past_keys"]], "ep": ep}


def account_layer(x):
    out = [{"e": "Reset"}]
    ktc = "none"   # type of the current key in the last image seen, in the configuration's spelling
    cert_ep = {"cA_ecdsa-p256": "A", "cB_ecdsa-p256": "B", "cC_ecdsa-p256": "C"}
    for e in x["events"]:
        src, ev = e.get("src"), e.get("ev")
        if src == "drv":
            if ev == "AcctCfg":
                out.append({"e": "Start", "c": e["c"], "kt": e["kt"], "eab": e["eab"]})
            elif ev == "CorruptExit":
                out.append({"e": "CorruptExit", "rc": e["rc"], "unchanged": e["unchanged"], "requests": e["requests"], "hung": e["hung"]})
        elif src == "acmed":
            if ev in ("AccountSave", "AccountLoaded") and e.get("name") == "acc1":
                ktc = e["current_key"]["key_type"].replace("-", "_")
                out.append({"e": "Saved" if ev == "AccountSave" else "Loaded", "img": image(e)})
            elif ev == "AttemptStart" and e.get("cert") in cert_ep:
                out.append({"e": "RenewStart", "ep": cert_ep[e["cert"]]})
            elif ev == "AttemptEnd" and e.get("cert") in cert_ep:
                out.append({"e": "RenewEnd", "ep": cert_ep[e["cert"]], "ok": bool(e["is_success"]), "ktc": ktc})
        elif src == "ca":
            if ev == "CaForget":
                out.append({"e": "CaForget", "ep": e["ep"]})
            elif ev == "CaReq" and e.get("method") == "POST" and e.get("delivered"):
                d = e.get("detail") or {}
                st = (e.get("resp") or {}).get("status")
                typ = e.get("resp_type") or ""
                if e["kind"] in ("account", "keyChange", "newOrder") and str(e.get("fault") or "").startswith("acme:"):
                    out.append({"e": "CaRefused", "ep": e["ep"]})
                if typ.endswith("accountDoesNotExist"):
                    out.append({"e": "CaUnknown", "ep": e["ep"]})
                if e["kind"] == "newAccount":
                    eab = (d.get("eab") or {}).get("kid") if (d.get("eab") or {}).get("ok") else None
                    out.append({"e": "CaNewAccount", "ep": e["ep"], "accepted": bool(d.get("accepted")), "thumb": d.get("thumb") or "none",
                                "c_after": ",".join(d.get("contacts_after") or []) or "none", "eab": eab or "none", "created": bool(d.get("created"))})
                elif e["kind"] == "account" and st == 200 and (d.get("update") or {}).get("contacts") is not None:
                    out.append({"e": "CaUpdate", "ep": e["ep"], "c": ",".join(d["update"]["contacts"]) or "none"})
                elif e["kind"] == "keyChange" and "inner" in d:
                    p = e.get("post") or {}
                    out.append({"e": "CaRekey", "ep": e["ep"], "done": bool(d.get("done")),
                                "signer": d.get("thumb_before") if p.get("sig_ok") else "invalid", "new": (d.get("inner") or {}).get("new_thumb") or "none"})
    return out


def corrupt_specs(tier, seed):
    """Every truncation point of a real account file (quick: a sample of them)."""
    def make(points_fn, tag, acct, note):
        def truncations(sc):
            f = [p for p in os.listdir(sc.world.accounts) if p.endswith(".bin")][0]
            path = os.path.join(sc.world.accounts, f)
            good = open(path, "rb").read()
            pts = points_fn(len(good), good)
            for kind, data in pts:
                open(path, "wb").write(data)
                before = len([1 for e in sc.events() if e.get("ev") == "CaReq"])
                r = sc.run(attempts=1)
                now = open(path, "rb").read()
                after = len([1 for e in sc.events() if e.get("ev") == "CaReq"])
                sc.tw.emit({"src": "drv", "ev": "CorruptExit", "kind": kind, "len": len(data), "rc": r["rc"] if r["rc"] is not None else -999,
                            "unchanged": now == data, "requests": after - before, "hung": bool(r["hung"])})
            open(path, "wb").write(good)
        sp = dict(tag=tag, certs=flowcheck.prepare(dict(certs=[simple_cert("cA")]))["certs"], accounts=[acct],
                  steps=[("call", lambda sc: sc.tw.emit({"src": "drv", "ev": "AcctCfg", "c": contacts_str([c["mailto"] for c in acct["contacts"]]),
                                                           "kt": acct["key_type"], "eab": "none"})),
                         ("run", {"attempts": 1}), ("call", truncations)], meta={"family": "truncated account file", "note": note, "flow": {}})
        return sp

    def pts_quick(n, good):
        rng = random.Random(seed)
        ks = sorted(set([0, 1, 2, 7, 8, 9, n // 2, n - 2, n - 1] + [rng.randrange(n) for _ in range(14)]))
        out = [("truncate@%d" % k, good[:k]) for k in ks]
        out.append(("garbage", bytes(rng.randrange(256) for _ in range(n))))
        out.append(("bitflip in the first length field", good[:6] + bytes([good[6] ^ 0x40]) + good[7:]))
        return out

    def pts_all(n, good):
        return [("truncate@%d" % k, good[:k]) for k in range(n)] + pts_quick(n, good)[-2:]
    f = pts_all if tier == "thorough" else pts_quick
    specs = [make(f, "C11/t0", {"name": "acc1", "contacts": [{"mailto": "a@example.org"}], "key_type": "ecdsa_p256"}, "P-256, one endpoint")]
    if tier == "thorough":
        specs.append(make(f, "C11/t1", {"name": "acc1", "contacts": [{"mailto": "ü@example.org"}, {"mailto": "b@example.org"}], "key_type": "ed25519"}, "Ed25519, unicode contact"))
    return specs


def run(ctx):
    mc = model(ctx.tier)
    H = histories(ctx.tier, ctx.seed)
    specs = [h.spec() for h in H] + corrupt_specs(ctx.tier, ctx.seed)
    results = flows.run_many(specs, workers=10)
    lines, owner = [], []
    for i, x in enumerate(results):
        if any(y["hung"] for y in x["runs"]):
            raise ToolError("daemon hung in history %s" % x["meta"].get("ops"))
        for e in account_layer(x):
            lines.append(e)
            owner.append(i)
    root = fresh_dir("C11", "tv")
    path = os.path.join(root, "account.ndjson")
    open(path, "w").write("".join(json.dumps(e) + "\n" for e in lines))
    tv = tlc.validate_trace("Trace_Account", TRACE_CFG % tlc.tla_set(LABELS), "C11_tv", path, timeout=1800, heap="8g")
    if tv["hard_errors"] or tv["unmatched"] is not None:
        raise ToolError("TLC failed on the account trace: %s unmatched=%s %s (%s)" % (tv["hard_errors"][:2], tv["unmatched"],
                        lines[tv["unmatched"] - 1] if tv["unmatched"] else "", tv["out_path"]))
    seen = set()
    for ln, labs in tv["bad"]:
        o = owner[ln - 1]
        if (o, tuple(labs)) in seen:
            continue
        seen.add((o, tuple(labs)))
        x = results[o]
        rp = save_replay("C11", os.path.basename(x["tag"]), {"history.json": {k: v for k, v in x["meta"].items() if k != "flow"},
                                                            "trace.ndjson": os.path.join(x["world"], "trace.ndjson"), "violated.json": {"labels": labs, "event": lines[ln - 1]}})
        ctx.verdict.violation("%s in history %s at %s" % (labs, x["meta"].get("ops") or x["meta"].get("note"), json.dumps(lines[ln - 1])[:300]), rp)
    kinds = {}
    for e in lines:
        kinds[e["e"]] = kinds.get(e["e"], 0) + 1
    cov = {"states": mc["states"], "transitions": mc["transitions"], "traces_validated_against_impl": len(results),
           "samples": [results[0]["meta"]["ops"], results[3]["meta"]["ops"], results[-1]["meta"].get("note")], "model": mc, "histories": len(H),
           "events_by_kind": kinds, "exhaustive": False,
           "rule": "model: every history of length <= 6 (<= 4/5 with three endpoints) over {edit contacts, change key type, change both, add/change/remove binding, "
                   "restart, renew on an endpoint, CA forgets}; implementation: 13 fixed histories (the ones the model singles out) + seeded random histories replayed "
                   "against the real daemon (restart = a run with no certificate, renew on e = a run with only e's certificate) with the CA tables, the account images "
                   "dumped at load/save and the renewal outcomes judged by Trace_Account; truncation of a real account file at sampled (thorough: all) offsets"}
    return {"coverage": cov, "assumptions": ["keys are identified by the RFC 7638 thumbprint the daemon itself reports in its dumps and the one the CA computes from the registered JWK",
                                            "'in step' is judged for contacts and key (the property's clause); the binding is only used to justify a new registration"]}
