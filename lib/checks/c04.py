"""C04 - every ACME POST is a valid, fresh, correctly bound JWS."""
import base64, json, os, random
import flows, httpcheck, tlc, vcrypto
from common import save_replay, ToolError, log, fresh_dir
from daemon import probe
from scenario import simple_cert

NEEDS = ["acmed"]
KEY_TYPES = ["rsa2048", "rsa4096", "ecdsa_p256", "ecdsa_p384", "ecdsa_p521", "ed25519", "ed448"]


def acct(name="acc1", **kw):
    a = {"name": name, "contacts": [{"mailto": "%s@example.org" % name}]}
    a.update(kw)
    return a


def set_account(idx=0, **kw):
    def f(sc):
        a = dict(sc.accounts[idx])
        for k, v in kw.items():
            if v is None:
                a.pop(k, None)
            else:
                a[k] = v
        sc.accounts[idx] = a
    return f


def forget(ep="A"):
    return lambda sc: sc.cas[ep].forget_account()


def specs_for(tier, seed):
    rng = random.Random(seed)
    certs = [simple_cert("c1", ids=[{"dns": "a.example.org", "challenge": "http-01"}])]
    pos, _ = flows.baseline_positions("C04/base", certs)
    specs = []

    def add(**kw):
        kw["tag"] = "C04/s%04d" % len(specs)
        kw.setdefault("certs", certs)
        specs.append(kw)

    # 1. every account key type: first issuance + renewal
    for kt in KEY_TYPES:
        add(accounts=[acct(key_type=kt)], attempts=2, meta={"family": "key type", "key_type": kt})
    # 2. lost answers / nonce-less answers at every position, followed by another attempt, with CAs that do and
    #    do not attach nonces to GET answers
    faults = ["drop_after", "drop_before", "ok:no_nonce", "acme:badNonce:400", "acme:serverInternal:500:nononce",
              "ok:bad_nonce_header", "err:nonjson:500"]
    for (kind, nth, m) in pos:
        for fi, f in enumerate(faults):
            if f.startswith("ok:") and m != "POST" and kind != "newNonce":
                continue
            for nog in (False, True):
                if tier != "thorough" and (fi + nth + int(nog)) % 2 != seed % 2 and f not in ("drop_after", "ok:no_nonce"):
                    continue
                add(endpoints={"A": {"ca": {"nonce_on_get": nog}, "script": [{"kind": kind, "nth": nth, "fault": f, "repeat": 1 + (fi % 2)}]}},
                    attempts=2, meta={"family": "lost/nonce-less answer then next attempt", "kind": kind, "nth": nth, "fault": f, "nonce_on_get": nog})
    # 3. badNonce storms
    for L in ([3, 9] if tier != "thorough" else [1, 2, 3, 5, 9, 10]):
        for (kind, nth, m) in pos:
            if m == "POST" and (tier == "thorough" or (nth + L) % 2 == 0):
                add(endpoints={"A": {"script": [{"kind": kind, "nth": nth, "fault": "acme:badNonce:400", "repeat": L}]}},
                    meta={"family": "badNonce storm", "kind": kind, "len": L})
    # 4. account life-cycle: contact update, key roll-over between key types, CA forgets the account
    pairs = [(a, b) for a in KEY_TYPES for b in KEY_TYPES if a != b]
    rng.shuffle(pairs)
    if tier != "thorough":
        pairs = pairs[:8] + [("ecdsa_p256", "ed25519"), ("rsa2048", "ecdsa_p521")]
    for a, b in pairs:
        add(accounts=[acct(key_type=a)], meta={"family": "roll-over", "from": a, "to": b},
            steps=[("run", {}), ("call", set_account(key_type=b)), ("run", {})])
    # an endpoint that is TWO key generations behind (it was unreachable when the first change was rolled out on the other endpoint):
    # its keyChange has to be signed by the key that endpoint still has on record, not by the most recently superseded one
    triples = [("ecdsa_p256", "rsa2048", "ecdsa_p384"), ("ed25519", "ecdsa_p256", "ecdsa_p521")]
    if tier == "thorough":
        triples += [("rsa2048", "ed448", "ecdsa_p256"), ("ecdsa_p384", "ecdsa_p256", "ed25519"), ("ecdsa_p521", "rsa4096", "rsa2048")]
    for a, b, c in triples:
        add(accounts=[acct(key_type=a)], endpoints={"A": {}, "B": {"script": [{"kind": "directory", "nth": 2, "fault": "drop_before", "repeat": 1}]}},
            certs=[simple_cert("c1"), simple_cert("c2", endpoint="B")],
            meta={"family": "roll-over on an endpoint two generations behind", "keys": [a, b, c]},
            steps=[("run", {}), ("call", set_account(key_type=b)), ("run", {}), ("call", set_account(key_type=c)), ("run", {})])
    # key and contacts changed together and the synchronisation does not get through (the CA refuses the contacts, or their update is
    # lost on the way) after the roll-over was accepted: later requests - in this process and after a restart - are still signed by
    # the key the CA holds by then
    def refuse_next_update(fault):
        def f(sc):
            ca = sc.cas["A"]
            with ca.mu:
                ca.script = [{"kind": "account", "nth": ca.kind_count.get("account", 0) + 1, "repeat": 1, "fault": fault}]
        return f
    for a, b, fault in (("ecdsa_p256", "ecdsa_p384", "acme:invalidContact:400"), ("rsa2048", "ed25519", "drop_after"), ("ecdsa_p384", "rsa2048", "drop_before")):
        add(accounts=[acct(key_type=a)], meta={"family": "roll-over accepted, contacts update fails", "from": a, "to": b, "fault": fault},
            steps=[("run", {}), ("call", set_account(key_type=b, contacts=[{"mailto": "new@example.org"}])), ("call", refuse_next_update(fault)), ("run", {"attempts": 1}),
                   ("run", {"attempts": 2})])
    # several certificates on ONE endpoint, their issuances overlapping (one polls while the others still have requests to send): the
    # endpoint's nonce cell is shared - no nonce is used by two of them
    for n, polls in ((2, 3), (3, 2), (2, 6)):
        def delay(kind, r):
            return r.choice([0, 0, 5, 20, 40])
        add(certs=[simple_cert("ov%d" % j, ids=[{"dns": "ov%d.example.org" % j, "challenge": "http-01"}]) for j in range(n)],
            endpoints={"A": {"ca": {"delay": delay, "seed": seed + n + polls, "authz_polls": polls, "order_polls": polls, "nonce_on_get": polls % 2 == 0}}},
            meta={"family": "several certificates on one endpoint", "certs": n, "polls": polls})
    add(meta={"family": "contact update"},
        steps=[("run", {}), ("call", set_account(contacts=[{"mailto": "x@example.org"}, {"mailto": "y@example.org"}])), ("run", {})])
    add(meta={"family": "CA forgets the account, then renewal"}, steps=[("run", {}), ("call", forget()), ("run", {})])
    add(meta={"family": "CA forgets the account, contact update pending"},
        steps=[("run", {}), ("call", forget()), ("call", set_account(contacts=[{"mailto": "z@example.org"}])), ("run", {})])
    # 5. external account binding, every MAC algorithm
    for alg in ("HS256", "HS384", "HS512", None):
        key = base64.urlsafe_b64encode(bytes(rng.randrange(256) for _ in range(32))).rstrip(b"=").decode()
        ea = {"identifier": "kid-%s" % alg, "key": key}
        if alg:
            ea["signature_algorithm"] = alg
        add(accounts=[acct(external_account=ea)], endpoints={"A": {"ca": {"eab_keys": {ea["identifier"]: key}, "require_eab": True}}},
            meta={"family": "external account binding", "alg": alg})
    # 7. a CA whose URLs are valid but not in the form a URL library would normalise them to (mixed-case host name): the strings the
    #    CA handed out - account URL as kid, request URL as url - have to come back byte for byte
    add(endpoints={"A": {"ca": {"host": "LocalHost"}}}, attempts=2, meta={"family": "CA URLs with a mixed-case host name"})
    add(endpoints={"A": {"ca": {"host": "LocalHost"}}}, accounts=[acct(key_type="ecdsa_p256")], meta={"family": "CA URLs with a mixed-case host name, roll-over"},
        steps=[("run", {}), ("call", set_account(key_type="ecdsa_p384")), ("run", {})])
    # 6. two endpoints: each server's nonces stay with that server
    add(endpoints={"A": {}, "B": {}}, certs=[simple_cert("c1"), simple_cert("c2", endpoint="B")], attempts=2,
        meta={"family": "two endpoints, one account"})
    return specs


def volume(tier, seed, tag):
    """JWS made by the daemon's own encode_kid / encode_jwk, verified by the independent oracle, judged by the spec."""
    vc = vcrypto.shared()
    plan = {"ecdsa_p256": (6, 400), "ecdsa_p384": (4, 300), "ecdsa_p521": (4, 500), "ed25519": (3, 100), "ed448": (3, 80),
            "rsa2048": (1, 40), "rsa4096": (1, 10)}
    if tier == "thorough":
        plan = {"ecdsa_p256": (40, 2000), "ecdsa_p384": (30, 1000), "ecdsa_p521": (30, 400), "ed25519": (20, 300),
                "ed448": (20, 200), "rsa2048": (4, 200), "rsa4096": (2, 60)}
    lines, n_sig, lead, lead2 = [{"e": "Reset"}], 0, 0, 0
    url = "http://ca.example/acme/thing"
    for kt, (keys, count) in plan.items():
        r = probe("jws", {"key_type": kt, "count": count, "keys": keys, "url": url, "kid": "http://ca.example/acct/K"}, timeout=900)
        if not r.get("ok"):
            raise ToolError("jws probe failed for %s: %s" % (kt, r))
        for k, res in enumerate(r["results"]):
            lines.append({"e": "Reset"})
            info = vc.must("jwk_info", jwk=res["jwk"])
            acct_id = "K%s%d" % (kt, k)
            created = False
            for m in res["jws"]:
                hdr = json.loads(base64.urlsafe_b64decode(m["protected"] + "=" * (-len(m["protected"]) % 4)))
                v = vc.must("jws_verify", jwk=res["jwk"], alg=hdr["alg"], protected=m["protected"], payload=m["payload"], signature=m["signature"])
                n_sig += 1
                if v.get("lead_zero") and any(v["lead_zero"]):
                    lead += 1
                if kt.startswith("ecdsa"):
                    raw = base64.urlsafe_b64decode(m["signature"] + "=" * (-len(m["signature"]) % 4))
                    half = len(raw) // 2
                    if raw[:2] == b"\0\0" or raw[half:half + 2] == b"\0\0":
                        lead2 += 1      # a component two or more bytes short of the field width
                has_jwk = "jwk" in hdr
                nonce = "%s-%s" % (kt, hdr["nonce"])   # the probe numbers its nonces per call
                lines += [{"e": "CaGet", "kind": "newNonce", "rnonce": nonce, "ans": "ok"}, {"e": "NonceSet", "nonce": nonce},
                          {"e": "PostBegin", "url": url, "cell": nonce, "poll": False, "who": "probe"}, {"e": "HttpPost", "url": url, "nonce": nonce, "cell": "none"}]
                first = has_jwk and not created
                lines.append({"e": "CaPost", "delivered": True, "kind": "newAccount" if has_jwk else "other", "nonce": nonce, "state": "fresh",
                              "url_ok": hdr.get("url") == url, "flattened": set(m.keys()) == {"protected", "payload", "signature"},
                              "alg_ok": not any(x.startswith("alg ") for x in v["problems"]), "has_jwk": has_jwk, "has_kid": "kid" in hdr,
                              "kid_acct": acct_id if ("kid" in hdr and created) else "none", "signer": v["spki_sha"],
                              "sig_ok": bool(v["ok"]) and not any("signature is" in x for x in v["problems"]) and hdr.get("jwk", res["jwk"]) == res["jwk"],
                              "content": "%s|%d" % (url, n_sig), "inner_ok": True, "eab_ok": True, "ans": "ok", "type": "none", "rnonce": "none",
                              "upd_op": "create" if first else "none", "upd_acct": acct_id if first else "none",
                              "upd_key": info["spki_sha"] if first else "none", "n": n_sig, "fault": "none"})
                created = created or first
                lines.append({"e": "HttpOk"})
    d = fresh_dir(tag)
    path = os.path.join(d, "volume.ndjson")
    with open(path, "w") as f:
        for e in lines:
            f.write(json.dumps(e) + "\n")
    labels = ["C04_Url", "C04_Flattened", "C04_AlgMatchesKey", "C04_SigUnderRecordedKey", "C04_Fresh"]
    r = tlc.validate_trace("Trace_AcmeHttp", httpcheck.TRACE_CFG % tlc.tla_set(labels), tag.replace("/", "_"), path, timeout=3000, heap="12g")
    if r["hard_errors"] or r["unmatched"] is not None:
        raise ToolError("TLC failed on the JWS volume trace: %s %s (%s)" % (r["hard_errors"][:2], r["unmatched"], r["out_path"]))
    bad = [(labs, lines[ln - 1]) for ln, labs in r["bad"] if not (labs == ["C04_KidIsAccountUrl"])]
    return {"signatures": n_sig, "ecdsa_with_leading_zero_component": lead, "ecdsa_with_component_two_bytes_short": lead2, "plan": plan, "events": len(lines)}, bad, path


def run(ctx):
    mc = httpcheck.model_check("C04", ctx.tier)
    specs = specs_for(ctx.tier, ctx.seed)
    results = flows.run_many(specs, workers=12)
    hung = [r["meta"] for r in results if any(x["hung"] for x in r["runs"])]
    eps = lambda r: sorted({e["ep"] for e in r["events"] if e.get("src") == "ca" and "ep" in e})
    bad, unmatched, stats, path = httpcheck.validate("C04/tv", results, httpcheck.C04, eps=eps)
    if unmatched:
        raise ToolError("trace line %d of scenario %s is not explained by Trace_AcmeHttp: %s" % (unmatched[2], results[unmatched[0]]["meta"], unmatched[1]))
    seen = set()
    for idx, labs, ev in bad:
        if idx in seen:
            continue
        seen.add(idx)
        r = results[idx]
        rp = save_replay("C04", os.path.basename(r["tag"]), {"scenario.json": r["meta"], "trace.ndjson": os.path.join(r["world"], "trace.ndjson"),
                                                            "violated.json": {"labels": labs, "event": ev}})
        ctx.verdict.violation("guards %s failed in scenario %s at %s" % (labs, r["meta"], ev), rp)
    vol, vbad, vpath = volume(ctx.tier, ctx.seed, "C04/volume")
    for labs, ev in vbad[:3]:
        rp = save_replay("C04", "volume", {"volume.ndjson": vpath, "violated.json": {"labels": labs, "event": ev}})
        ctx.verdict.violation("JWS from encode_kid/encode_jwk fails %s: %s" % (labs, ev), rp)
    fb, fu, fstats, _ = httpcheck.validate("C04/fid", results, httpcheck.C04 + httpcheck.C08, eps=eps)
    posts = [e for r in results for e in r["events"] if e.get("ev") == "CaReq" and e.get("method") == "POST"]
    by_kt = {}
    for e in posts:
        kt = str((e.get("post") or {}).get("key_type"))
        by_kt[kt] = by_kt.get(kt, 0) + 1
    kinds = sorted({e["kind"] for e in posts})
    cov = {"states": mc["states"], "transitions": mc["transitions"], "traces_validated_against_impl": len(results) + 1,
           "samples": [r["meta"] for r in results[:2]] + [r["meta"] for r in results[-3:]],
           "model": mc, "trace_validation": stats, "posts_judged": len(posts), "posts_by_signing_key_type": by_kt,
           "request_kinds_seen": kinds, "jws_volume": vol, "scenarios_cut_by_timeout": hung,
           "model_fidelity": {"all_labels_clean": not fb and not fu, "bad": [(results[i]["meta"], l) for i, l, _ in fb[:5]]},
           "exhaustive": False,
           "rule": "all 7 account key types; every request position x {lost, nonce-less, badNonce, non-problem} answers followed by a second "
                   "attempt, against CAs with and without nonces on GET; badNonce storms; roll-overs between key types, also on an endpoint two key generations behind; contact updates; a CA whose URLs have a mixed-case host name (kid and url must be the strings it issued); "
                   "forgotten accounts; EAB with each MAC; two endpoints; plus JWS volume through encode_kid/encode_jwk"}
    return {"coverage": cov, "assumptions": [
        "OpenSSL (through the vcrypto helper) is the signature/JWK oracle; EdDSA keys may name their algorithm 'EdDSA' (RFC 8037) or 'Ed25519'/'Ed448' (RFC 9864)",
        "the mock CA's event (written under its state lock, before it replies) records what it received",
        "JWK member/width strictness beyond what verification needs belongs to C15 (not claimed)"]}
