"""C20 - the shipped default hooks solve and clean up challenges, run after run."""
import base64, hashlib, json, os, random, shutil, socket, ssl, subprocess, time
import tlc, flows, vcrypto
from common import fresh_dir, ToolError, save_replay, REPO, TARGET
from scenario import simple_cert

NEEDS = ["acmed", "tacd"]
LABELS = ["C20_ValidationSucceeds", "C20_NoLeftovers", "C20_RepeatWorks", "C20_GitRecordsEveryFile"]
MC_CFG = """SPECIFICATION Spec
CONSTANTS
  Enforce = %s
  Deviations = %s
  MaxIssuances = 3
INVARIANT NoBad
CHECK_DEADLOCK FALSE
"""
TRACE_CFG = """SPECIFICATION TSpec
CONSTANTS
  Enforce = %s
  Deviations = {}
  MaxIssuances = 0
POSTCONDITION Accepted
CHECK_DEADLOCK FALSE
"""
DEFAULT_HOOKS = os.path.join(REPO, "acmed", "config", "default_hooks.toml")


def make_validator(settings):
    """The conforming CA's validation, through the places the manual documents."""
    def validate(ca, authz, chall, expect):
        ident = authz["ident"]["value"]
        if chall["type"] == "http-01":
            root = settings.get("HTTP_ROOT") or "/var/www"
            p = os.path.join(root, ident, ".well-known", "acme-challenge", chall["token"])
            for _ in range(20):
                if os.path.isfile(p):
                    break
                time.sleep(0.05)
            if not os.path.isfile(p):
                return False, "no file at %s" % p
            if not (os.stat(p).st_mode & 0o004):
                return False, "proof file is not world-readable"
            body = open(p).read()
            return (body.strip() == expect["keyauth"]), "content %r" % body[:80]
        if chall["type"] == "tls-alpn-01":
            vc = vcrypto.shared()
            last = "?"
            for _ in range(40):
                try:
                    if settings["group"].endswith("unix"):
                        path = os.path.join(settings.get("TACD_SOCK_ROOT") or "/run", "tacd_%s.sock" % ident)
                        raw = socket.socket(socket.AF_UNIX)
                        raw.settimeout(2)
                        raw.connect(path)
                    else:
                        host = (settings.get("TACD_HOST") or ident).strip("[]")
                        raw = socket.create_connection((host, int(settings.get("TACD_PORT") or 5001)), timeout=2)
                    ctx = ssl.SSLContext(ssl.PROTOCOL_TLS_CLIENT)
                    ctx.check_hostname = False
                    ctx.verify_mode = ssl.CERT_NONE
                    ctx.set_alpn_protocols(["acme-tls/1"])
                    if settings.get("validator_tls12"):
                        ctx.maximum_version = ssl.TLSVersion.TLSv1_2      # RFC 8737: "TLS 1.2 or higher" - a validator need not speak 1.3
                    s = ctx.wrap_socket(raw, server_hostname=ident)
                    sel = s.selected_alpn_protocol()
                    der = s.getpeercert(binary_form=True)
                    s.close()
                    info = vc.must("cert_parse", der=base64.b64encode(der).decode())["certs"][0]
                    ext = [x for x in info["extensions"] if x["oid"] == "1.3.6.1.5.5.7.1.31"]
                    ok = sel == "acme-tls/1" and info["dns"] == [ident] and ext and ext[0]["critical"] and ext[0]["value_hex"] == "0420" + expect["tlsalpn_hex"]
                    return bool(ok), "selected=%s san=%s" % (sel, info["dns"])
                except (OSError, ssl.SSLError) as ex:
                    last = str(ex)[:100]
                    time.sleep(0.05)
            return False, "no acme-tls/1 responder: %s" % last
        return False, "unsupported challenge"
    return validate


def world_facts(settings, ident):
    http_root = settings.get("HTTP_ROOT") or "/var/www"
    pid_root = settings.get("TACD_PID_ROOT") or "/run"
    sock_root = settings.get("TACD_SOCK_ROOT") or "/run"
    proofs = 0
    d = os.path.join(http_root, ident, ".well-known", "acme-challenge")
    if os.path.isdir(d):
        proofs = len(os.listdir(d))
    pidf = os.path.join(pid_root, "tacd_%s.pid" % ident)
    sockf = os.path.join(sock_root, "tacd_%s.sock" % ident)
    live = 0
    out = subprocess.run(["pgrep", "-x", "-a", "tacd"], capture_output=True, text=True).stdout.splitlines()
    # a responder belongs to this scenario if it was started with this scenario's pid file (scenarios for the same
    # identifier run side by side, each under its own roots; the shared-default ones run one at a time)
    live = len([l for l in out if (" %s " % pidf) in l + " "])
    return {"proofs": proofs, "pids": 1 if os.path.exists(pidf) else 0, "socks": 1 if os.path.exists(sockf) else 0, "live": live}


def git_facts(dirs):
    files = []
    for d in dirs:
        if not os.path.isdir(d):
            continue
        for f in sorted(os.listdir(d)):
            p = os.path.join(d, f)
            if f == ".git" or not os.path.isfile(p):
                continue
            show = subprocess.run(["git", "-C", d, "show", "HEAD:" + f], capture_output=True)
            files.append({"name": f, "committed": show.returncode == 0 and show.stdout == open(p, "rb").read()})
    return files or [{"name": "none", "committed": False}]


SHORT_DIRS = []


def scenario(i, group, git, setvars, ident, root, issuances):
    idents = list(ident) if isinstance(ident, (list, tuple)) else [ident]
    ident = idents[0]
    scratch = os.path.join(root, "w%03d" % i)
    settings = {"group": group, "validator_tls12": i % 3 == 1}
    cenv = {}
    # below the kernel's ephemeral range (32768..60999), so that no client socket of another process can be sitting on it,
    # spread by process id so that two copies of this check do not meet, and tested free
    port = 20000 + (os.getpid() * 131 + i * 37) % 12000
    for _ in range(50):
        probe = socket.socket()
        try:
            probe.bind(("127.0.0.1", port))
            probe.close()
            break
        except OSError:
            probe.close()
            port = 20000 + (port - 20000 + 101) % 12000
    if setvars:
        settings.update({"HTTP_ROOT": os.path.join(scratch, "www"), "TACD_PID_ROOT": os.path.join(scratch, "run"),
                         "TACD_SOCK_ROOT": os.path.join(scratch, "sock"), "TACD_HOST": "[::1]" if i % 4 == 3 else "127.0.0.1", "TACD_PORT": str(port)})   # every variable its own value
        # (TACD_HOST may be any address tacd can listen on; the hook renders host:port, so an IPv6 literal is written in brackets)
        if len(ident) > 40:
            # a unix socket path holds 107 octets: long names need a short directory
            settings["TACD_SOCK_ROOT"] = "/dev/shm/vc20_%d_%d" % (os.getpid(), i)
            SHORT_DIRS.append(settings["TACD_SOCK_ROOT"])
        for k in ("HTTP_ROOT", "TACD_PID_ROOT", "TACD_SOCK_ROOT", "TACD_HOST", "TACD_PORT"):
            cenv[k] = settings[k]
        os.makedirs(settings["HTTP_ROOT"], exist_ok=True)
        os.makedirs(settings["TACD_PID_ROOT"], exist_ok=True)
        os.makedirs(settings["TACD_SOCK_ROOT"], exist_ok=True)
    else:
        os.makedirs("/var/www", exist_ok=True)
        settings["TACD_PORT"] = None
    chal = "http-01" if group.startswith("http") else "tls-alpn-01"
    hooks = [group] + (["git"] if git else [])
    # the variables are given at the identifier, the certificate or the global level in turn: the manual documents all three
    level = ("certificate", "identifier", "global")[i % 3] if setvars else "none"
    settings["level"] = level
    if level == "identifier":
        cert = simple_cert("dh%d" % i, ids=[{"dns": x, "challenge": chal, "env": cenv} for x in idents])
    elif level == "global":
        cert = simple_cert("dh%d" % i, ids=[{"dns": x, "challenge": chal} for x in idents])
    else:
        cert = simple_cert("dh%d" % i, ids=[{"dns": x, "challenge": chal} for x in idents], env=cenv)

    def after(sc):
        time.sleep(0.3)
        ws = [world_facts(settings, x) for x in idents]
        w = {k: sum(y[k] for y in ws) for k in ws[0]}
        files = git_facts([sc.world.certs, sc.world.accounts]) if git else [{"name": "none", "committed": True}]
        sc.tw.emit({"src": "drv", "ev": "AfterRun", "world": w, "files": files})
    steps = []
    for _ in range(issuances):
        steps += [("run", {"attempts": 1}), ("call", after)]
    env = {"PATH": os.path.join(TARGET, "repo", "debug") + ":" + os.environ.get("PATH", ""), "GIT_CONFIG_GLOBAL": "/dev/null"}
    gopts = {"env": cenv} if level == "global" else {}
    sp = dict(tag="C20/s%03d" % i, certs=[cert], hooks=[], cert_hooks=hooks, global_opts=gopts, account_hooks=(["git"] if git else []), include=[DEFAULT_HOOKS],
              endpoints={"A": {"ca": {"validate": make_validator(settings), "offered": [chal], "authz_polls": i % 2}}}, steps=steps, env=env, timeout=90,
              meta={"family": "default hooks", "sync_validation": i % 2 == 0, "group": group, "git": git, "vars_set": setvars, "identifier": ident, "identifiers": idents, "issuances": issuances, "level": level, "settings": {k: v for k, v in settings.items()}})
    return sp, settings


def run(ctx):
    r = tlc.model_check("DefaultHooks", MC_CFG % (tlc.tla_set(LABELS), "{}"), "C20_mc", workers=2, timeout=600,
                        required_actions=["Challenge", "Validate", "CleanUp", "Store", "AfterRun"])
    if r["violated"]:
        raise ToolError("DefaultHooks: model inconsistent (%s)" % r["out_path"])
    for d in ("TcpListenBarePort", "UnixSocketLeftBehind"):
        rd = tlc.model_check("DefaultHooks", MC_CFG % (tlc.tla_set(LABELS), '{"%s"}' % d), "C20_dev", workers=2, timeout=600)
        if not rd["violated"]:
            raise ToolError("DefaultHooks model sanity: %s not caught" % d)
    root = fresh_dir("C20", "scratch")
    specs, metas = [], []
    i = 0
    for group in ("http-01-echo", "tls-alpn-01-tacd-tcp", "tls-alpn-01-tacd-unix"):
        for git in (False, True):
            for setvars in (True, False):
                if not setvars and ctx.tier != "thorough" and git:
                    continue
                # identifiers of 1..3 labels; with the documented defaults the tcp responder listens on the identifier itself, which must resolve locally
                idents = ["localhost"] if (not setvars and group.endswith("tcp")) else (["localhost", "host%d.test" % i, "a.b%d.example" % i][: (3 if ctx.tier == "thorough" else 2)])
                if setvars and not git:
                    # a name longer than a common name may be (64), with a label of the greatest length
                    idents = idents + ["%s.h%d.test" % ("l" * 63, i)]
                if setvars and not git:
                    # several names in one certificate share the settings (one listen address, one web root), as behind a reverse proxy
                    idents = idents + [["n1-%d.test" % i, "n2-%d.test" % i, "n3.sub%d.example" % i][: (3 if ctx.tier == "thorough" else 2)]]
                for ident in idents:
                    sp, st = scenario(i, group, git, setvars, ident, root, 3 if (ctx.tier == "thorough" or i % 2 == 0) else 2)
                    specs.append(sp)
                    i += 1
    # runs that use the documented default locations (/var/www, /run, port 5001) cannot share them: one at a time
    shared = [s for s in specs if not s["meta"]["vars_set"]]
    private = [s for s in specs if s["meta"]["vars_set"]]
    results = flows.run_many(private, workers=6)
    # the documented default locations exist once per machine: another copy of this check must wait
    import fcntl
    lock = open("/var/lock/verif_c20_default_locations.lock", "w")
    fcntl.flock(lock, fcntl.LOCK_EX)
    try:
        for s in shared:
            results += flows.run_many([s], workers=1)
            ident = s["meta"]["identifier"]
            shutil.rmtree(os.path.join("/var/www", ident), ignore_errors=True)
            for f in ("/run/tacd_%s.pid" % ident, "/run/tacd_%s.sock" % ident):
                if os.path.exists(f):
                    os.unlink(f)
    finally:
        fcntl.flock(lock, fcntl.LOCK_UN)
        lock.close()
    # stop whatever responders this run left behind - and only those: other checks (C16, C17) and other copies of this
    # one run their own tacd at the same time.  Ours are recognisable by their pid-file argument.
    mine = [root] + ["/run/tacd_%s.pid" % s["meta"]["identifier"] for s in shared]
    for l in subprocess.run(["pgrep", "-x", "-a", "tacd"], capture_output=True, text=True).stdout.splitlines():
        pid, _, cmdline = l.partition(" ")
        if any(m in cmdline for m in mine):
            try:
                os.kill(int(pid), 15)
            except (OSError, ValueError):
                pass
    for d in SHORT_DIRS:
        shutil.rmtree(d, ignore_errors=True)
    lines, owner = [], []
    for k, x in enumerate(results):
        lines.append({"e": "Reset", "git": bool(x["meta"]["git"])})
        owner.append(k)
        for e in x["events"]:
            if e.get("src") == "ca" and e.get("ev") == "CaValidate":
                lines.append({"e": "Validated", "ok": bool(e["ok"]), "why": str(e.get("why"))[:120], "type": e["type"]})
                owner.append(k)
            elif e.get("src") == "acmed" and e.get("ev") == "AttemptEnd":
                lines.append({"e": "AttemptEnd", "ok": bool(e["is_success"])})
                owner.append(k)
            elif e.get("src") == "drv" and e.get("ev") == "AfterRun":
                lines.append({"e": "AfterRun", "world": e["world"], "files": e["files"]})
                owner.append(k)
    path = os.path.join(root, "defaulthooks.ndjson")
    open(path, "w").write("".join(json.dumps(e) + "\n" for e in lines))
    tv = tlc.validate_trace("Trace_DefaultHooks", TRACE_CFG % tlc.tla_set(LABELS), "C20_tv", path, timeout=900)
    if tv["hard_errors"] or tv["unmatched"] is not None:
        raise ToolError("TLC failed on the default-hooks trace: %s %s (%s)" % (tv["hard_errors"][:2], tv["unmatched"], tv["out_path"]))
    seen = set()
    for ln, labs in tv["bad"]:
        o = owner[ln - 1]
        if (o, tuple(labs)) in seen:
            continue
        seen.add((o, tuple(labs)))
        x = results[o]
        m = {k: x["meta"][k] for k in ("group", "git", "vars_set", "identifier", "issuances")}
        rp = save_replay("C20", os.path.basename(x["tag"]), {"scenario.json": m, "trace.ndjson": os.path.join(x["world"], "trace.ndjson"),
                                                            "acmed.toml": os.path.join(x["world"], "acmed.toml"), "violated.json": {"labels": labs, "event": lines[ln - 1]},
                                                            "stderr.txt": x["runs"][-1]["stderr_tail"]})
        ctx.verdict.violation("%s with %s at %s" % (labs, m, json.dumps(lines[ln - 1])[:250]), rp)
    cov = {"states": r["distinct"], "transitions": r["generated"], "traces_validated_against_impl": len(results),
           "samples": [{k: results[j]["meta"][k] for k in ("group", "git", "vars_set", "identifier", "issuances")} for j in (0, len(results) // 2, len(results) - 1)],
           "validations_judged": sum(1 for e in lines if e["e"] == "Validated"), "issuances_judged": sum(1 for e in lines if e["e"] == "AttemptEnd"),
           "after_run_snapshots": sum(1 for e in lines if e["e"] == "AfterRun"), "exhaustive": False,
           "rule": "each shipped group (http-01-echo, tls-alpn-01-tacd-tcp, tls-alpn-01-tacd-unix) alone and with git, the five variables set to a scratch root or left "
                   "to their documented defaults, identifiers of 1..3 labels, one of 70+ characters, certificates with 2-3 names sharing one set of settings (one listen address), 2-3 consecutive issuances; default_hooks.toml is included unmodified; a validating CA reads "
                   "the http-01 proof at the documented path and performs a real acme-tls/1 handshake with the documented address or socket; after every run the driver "
                   "looks for leftovers and compares the git HEAD with the stored files"}
    return {"coverage": cov, "assumptions": ["identifiers that must resolve locally are 'localhost' (no DNS in the sandbox); otherwise TACD_HOST=127.0.0.1 as the manual allows",
                                            "the http-01 'web server' is the documented directory mapping: the CA reads the file the server would serve"]}
