"""C16 - tacd answers acme-tls/1 with exactly the RFC 8737 certificate, and only then."""
import concurrent.futures as cf, hashlib, json, os, random
import tlc, tacdlib
from common import fresh_dir, ToolError, save_replay

NEEDS = ["tacd"]
LABELS = ["C16_Selected", "C16_San", "C16_AcmeId", "C16_SelfSignedValid", "C16_RefuseForeign"]
KEY_TYPES = ["rsa2048", "rsa4096", "ecdsa-p256", "ecdsa-p384", "ecdsa-p521", "ed25519", "ed448"]
DIGESTS = ["sha256", "sha384", "sha512"]
U_LABELS = ["bücher", "café", "сайт", "日本語", "ñandú", "παράδειγμα"]
MC_CFG = """SPECIFICATION AlpnSpec
CONSTANTS
  Enforce = %s
  Deviations = %s
  MaxHist = 0
  Protos <- %s
INVARIANTS NoBad EmitOffer
CHECK_DEADLOCK FALSE
"""
TRACE_CFG = """SPECIFICATION TSpec
CONSTANTS
  Enforce = %s
  Deviations = {}
  MaxHist = 0
POSTCONDITION Accepted
CHECK_DEADLOCK FALSE
"""


def domains(rng, n):
    """(canonical A-label domain, text given to tacd)"""
    out = []
    words = ["example", "test", "www", "a", "mail-7", "x1", "node"]
    for i in range(n):
        nl = 1 + i % 5
        labels, shown = [], []
        for k in range(nl):
            if rng.random() < 0.3:
                u = rng.choice(U_LABELS)
                labels.append("xn--" + u.lower().encode("punycode").decode())
                shown.append(rng.choice([u, u.upper(), labels[-1], labels[-1].upper()]))
            else:
                w = rng.choice(words) + (str(rng.randrange(99)) if rng.random() < 0.4 else "")
                labels.append(w)
                shown.append(rng.choice([w, w.upper(), w.capitalize()]))
        out.append((".".join(labels), ".".join(shown)))
    return out


def long_domains(rng):
    """Names near the limits of the DNS: 253 octets of 63-octet ASCII labels, a single 63-octet label under a short suffix, and IDNs whose A-label form
    is a legal name while their UTF-8 form is far longer than 255 octets (repeated characters compress well in punycode)."""
    out = []
    l63 = lambda: "".join(rng.choice("abcdefghijklmnopqrstuvwxyz0123456789") for _ in range(63))
    a = ".".join([l63(), l63(), l63(), l63()[:61]])
    assert len(a) == 253
    out.append((a, a))
    b = l63() + ".example.org"
    out.append((b, b.upper()))
    for ch, k, nl in (("日", 25, 6), ("ü", 40, 4), ("я", 30, 5)):
        u = [ch * (k - j) for j in range(nl)]
        al = ["xn--" + x.encode("punycode").decode() for x in u]
        canon = ".".join(al + ["example"])
        assert len(canon) <= 253 and all(len(x) <= 63 for x in al) and len(".".join(u).encode()) > (255 if ch != "ü" else 200)
        out.append((canon, ".".join(u + ["example"])))
    return out


def run_case(args):
    idx, case, root = args
    digest = hashlib.sha256(("c16-%d-%s" % (idx, case["seed"])).encode()).digest()
    t = tacdlib.Tacd(os.path.join(root, "t%05d" % idx), case["shown"], tacdlib.proof_text(digest), release=False, listener=case["listener"],
                     source=case["source"], key_type=case.get("key_type"), digest=case.get("digest"), daemon=bool(case.get("daemon")))
    ev = [{"e": "Reset", "domain": "dns:" + case["canon"], "value": "0420" + digest.hex(), "case": {k: v for k, v in case.items() if k != "offers"}}]
    try:
        if not t.started:
            ev.append({"e": "Tls", "offer": [tacdlib.ACME], "validation": False,
                       "res": {"completed": False, "selected": "none", "sans": [], "acme_critical": False, "acme_value": "none", "self_signed": False,
                               "valid_now": False, "error": "tacd did not start (exit %s)" % t.exit_status(), "other_exts": []}})
            return idx, ev
        for offer in case["offers"]:
            ev.append({"e": "Tls", "offer": offer, "res": t.tls(offer, sni=case["canon"]), "validation": False})
        # host names are case-insensitive (RFC 4343) and the server_name extension is optional: the same client spelling the name
        # in another case, or not naming the host at all, is the same validation request
        canon = case["canon"]
        mixed = "".join(c.upper() if i % 2 else c for i, c in enumerate(canon))
        # ... and so is a client that speaks TLS 1.2 at most (RFC 8737 asks for "TLS 1.2 or higher")
        ev.append({"e": "Tls", "offer": [tacdlib.ACME], "res": t.tls([tacdlib.ACME], sni=canon, max12=True), "validation": False, "tls": "1.2 at most"})
        for sni in (canon.upper(), mixed, None):
            ev.append({"e": "Tls", "offer": [tacdlib.ACME], "res": t.tls([tacdlib.ACME], sni=sni), "validation": False, "sni": sni or "absent"})
    finally:
        t.stop()
    return idx, ev


def run(ctx):
    rng = random.Random(ctx.seed)
    r = tlc.model_check("Tacd", MC_CFG % (tlc.tla_set(LABELS), "{}", "ProtosFull" if ctx.tier == "thorough" else "ProtosQuick"), "C16_mc", workers=2, timeout=600, required_actions=["AlpnNext"])
    if r["violated"]:
        raise ToolError("Tacd: ALPN model inconsistent (%s)" % r["out_path"])
    for dev in ("AlpnAcceptsAnything", "AlpnPrefixMatch"):
        rd = tlc.model_check("Tacd", MC_CFG % (tlc.tla_set(LABELS), '{"%s"}' % dev, "ProtosQuick"), "C16_dev", workers=2, timeout=600)
        if not rd["violated"]:
            raise ToolError("Tacd model sanity: deviation %s of the ALPN callback is not caught" % dev)
    offers = []
    for o in tlc.replays(r["raw"]):
        if o not in offers:
            offers.append(o)
    cases = []
    doms = domains(rng, 60 if ctx.tier == "thorough" else 16)
    # every ALPN shape against a few servers
    for i in range(3):
        canon, shown = doms[i]
        cases.append({"canon": canon, "shown": shown, "listener": ["tcp", "unix", "tcp"][i], "source": ["flag", "file", "stdin"][i], "offers": offers, "seed": i})
    # key types x digests, listeners, sources, domains
    combos = [(kt, dg) for kt in KEY_TYPES for dg in DIGESTS]
    if ctx.tier != "thorough":
        combos = [c for i, c in enumerate(combos) if i % 3 == ctx.seed % 3 or c[0] in ("ecdsa-p256",)]
    for i, (kt, dg) in enumerate(combos):
        canon, shown = doms[(3 + i) % len(doms)]
        cases.append({"canon": canon, "shown": shown, "listener": "unix" if i % 3 == 0 else "tcp", "source": ["flag", "file", "stdin"][i % 3], "key_type": kt, "digest": dg,
                      "offers": [[tacdlib.ACME], ["h2", tacdlib.ACME], ["http/1.1"]], "seed": 100 + i})
    for i, (canon, shown) in enumerate(doms):
        cases.append({"canon": canon, "shown": shown, "listener": "tcp" if i % 2 else "unix", "source": ["stdin", "flag", "file"][i % 3],
                      "offers": [[tacdlib.ACME], ["h2"]], "seed": 1000 + i})
    # long names through every source (a value file may also end in blank lines)
    for i, (canon, shown) in enumerate(long_domains(rng)):
        for j, source in enumerate(("flag", "file", "stdin")):
            cases.append({"canon": canon, "shown": shown, "listener": "tcp" if (i + j) % 2 else "unix", "source": source, "offers": [[tacdlib.ACME], ["h2"]], "seed": 2000 + 3 * i + j,
                          "long": True})
    # started the way the manual and the shipped hooks start it: detached, with a pid file (values by flag or file: a detached process
    # has no standard input to read from)
    for i, (canon, shown) in enumerate(doms[:4]):
        cases.append({"canon": canon, "shown": shown, "listener": "tcp" if i % 2 else "unix", "source": ["flag", "file"][i % 2], "offers": [[tacdlib.ACME], ["h2"]], "seed": 3000 + i,
                      "daemon": True})
    root = fresh_dir("C16", "runs")
    lines, owner = [], []
    with cf.ThreadPoolExecutor(max_workers=10) as ex:
        for idx, ev in ex.map(run_case, [(i, c, root) for i, c in enumerate(cases)]):
            for e in ev:
                lines.append(e)
                owner.append(idx)
    path = os.path.join(root, "tacd.ndjson")
    open(path, "w").write("".join(json.dumps(e) + "\n" for e in lines))
    tv = tlc.validate_trace("Trace_Tacd", TRACE_CFG % tlc.tla_set(LABELS), "C16_tv", path, timeout=1800)
    if tv["hard_errors"] or tv["unmatched"] is not None:
        raise ToolError("TLC failed on the tacd trace: %s %s (%s)" % (tv["hard_errors"][:2], tv["unmatched"], tv["out_path"]))
    seen = set()
    for ln, labs in tv["bad"]:
        o = owner[ln - 1]
        if (o, tuple(labs)) in seen:
            continue
        seen.add((o, tuple(labs)))
        c = {k: v for k, v in cases[o].items() if k != "offers"}
        rp = save_replay("C16", "case%05d" % o, {"case.json": cases[o], "violated.json": {"labels": labs, "event": lines[ln - 1]}})
        ctx.verdict.violation("%s for %s at %s" % (labs, c, json.dumps(lines[ln - 1])[:300]), rp)
    hs = [e for e in lines if e["e"] == "Tls"]
    cov = {"states": r["distinct"], "transitions": r["generated"], "traces_validated_against_impl": len(cases),
           "samples": [{k: v for k, v in cases[0].items() if k != "offers"}, {k: v for k, v in cases[-1].items() if k != "offers"}, offers[:6]],
           "alpn_shapes_from_model": len(offers), "handshakes_judged": len(hs), "completed": sum(1 for e in hs if e["res"]["completed"]),
           "refused": sum(1 for e in hs if not e["res"]["completed"]), "key_type_digest_combinations": len(combos), "domains": len(doms),
           "exhaustive": False,
           "rule": "TLC enumerates every ALPN list over {acme-tls/1, h2, http/1.1, acme-tls/10, acme-tls/ (thorough: + acme-tls/1.1, ACME-TLS/1)} up to length 3 plus 'no extension' and checks the case split of the acceptor's callback; "
                   "each shape is offered to real tacd instances (server_name: the lower-case A-label; acme-tls/1 alone also with the name in upper and mixed case and without server_name) (tcp and unix listeners; domain/extension by flag, file and standard input); key types x digests; "
                   "random domains of 1..5 labels (ASCII, IDN given as U-label/A-label, mixed case) whose canonical A-label form is known by construction; names at the limits of the DNS (253 octets, 63-octet labels, IDNs of 300-450 UTF-8 octets) by flag, file and standard input; random digests "
                   "rendered in acmed's proof text; the negotiated protocol and the DER of the presented certificate are parsed by the harness and judged by Tacd.tla"}
    return {"coverage": cov, "assumptions": ["TLS and DER parsing (Python ssl, OpenSSL through vcrypto, a small DER walker for extensions) is trusted projection code",
                                            "a client that sends no ALPN extension is outside the two clauses of the property (OpenSSL completes such handshakes)"]}
