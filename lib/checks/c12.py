"""C12 - concurrent renewals never deadlock, double-register or share nonces."""
import itertools, json, os, random
import tlc, flows, flowcheck, httpcheck, project
from common import fresh_dir, ToolError, save_replay
from scenario import simple_cert

NEEDS = ["acmed"]
LABELS = ["C12_LockOrder", "C12_RegisterOnce", "C12_NoNonceSharing", "C12_Terminates", "C12_UnderEndpointLock"]
MC_CFG = """SPECIFICATION Spec
CONSTANTS
  Enforce = %s
  Deviations = %s
  Tasks <- %s
  AccOf <- %s
  EpOf <- %s
  MaxForget = %d
INVARIANTS NoBad C12_RegisterOnceInv LockSane
PROPERTY C12_Terminates
"""
TRACE_CFG = """SPECIFICATION TSpec
CONSTANTS
  Enforce = %s
  Deviations = {}
  Tasks <- TT
  AccOf <- TAcc
  EpOf <- TEp
  MaxForget = 0
POSTCONDITION Accepted
CHECK_DEADLOCK FALSE
"""
PATTERNS = [("T2", "SameSame_A", "SameSame_E"), ("T2", "SameSame_A", "SameAcc_E"), ("T2", "SameEp_A", "SameSame_E"),
            ("T3", "Three_A", "Three_E"), ("T3", "Mixed_A", "Mixed_E"), ("T3", "All_A", "All_E")]


def model(tier):
    out = {"states": 0, "transitions": 0, "patterns": []}
    pats = PATTERNS if tier == "thorough" else PATTERNS[:4]
    for T, A, E in pats:
        r = tlc.model_check("MC_Locks", MC_CFG % (tlc.tla_set(LABELS), "{}", T, A, E, 1), "C12_mc", workers=12, timeout=3000, heap="12g",
                            required_actions=["Prog", "Forget"])
        if r["violated"] or r["deadlock"]:
            raise ToolError("Locks: the model violates %s deadlock=%s (%s)" % (r["violated"], r["deadlock"], r["out_path"]))
        out["states"] += r["distinct"]
        out["transitions"] += r["generated"]
        out["patterns"].append({"tasks": T, "accounts": A, "endpoints": E, "states": r["distinct"], "depth": r["depth"]})
    rd = tlc.model_check("MC_Locks", MC_CFG % (tlc.tla_set(LABELS), '{"NestedEndpointWriteOnReRegister"}', "T2", "SameSame_A", "SameSame_E", 1), "C12_dev", workers=4, timeout=600)
    rd2 = tlc.model_check("MC_Locks", (MC_CFG % (tlc.tla_set(LABELS), '{"NestedEndpointWriteOnReRegister"}', "T2", "SameSame_A", "SameSame_E", 1)).replace("NoBad ", ""),
                          "C12_dev2", workers=4, timeout=600)
    if not rd["violated"] or not (rd2["deadlock"] or rd2["violated"]):
        raise ToolError("Locks model sanity: the pre-repair nested endpoint lock is not caught (discipline: %s, deadlock: %s)" % (rd["violated"], rd2["deadlock"]))
    out["pre_repair_program"] = {"violates_discipline": True, "deadlocks": bool(rd2["deadlock"])}
    return out


def patterns(tier, seed):
    """(n certs, [(account idx, endpoint idx)...]) sharing patterns"""
    rng = random.Random(seed)
    pats = [[(0, 0), (0, 0)], [(0, 0), (0, 1)], [(0, 0), (1, 0)], [(0, 0), (0, 0), (1, 0)], [(0, 0), (0, 1), (1, 1)], [(0, 0)] * 3,
            [(0, 0)] * 5, [(i % 2, i % 3) for i in range(6)], [(i % 3, i % 2) for i in range(8)], [(0, 0)] * 8]
    if tier == "thorough":
        for n in range(2, 9):
            for _ in range(4):
                pats.append([(rng.randrange(3), rng.randrange(3)) for _ in range(n)])
    return pats


def specs_for(tier, seed):
    rng = random.Random(seed)
    specs = []
    accs = ["acc1", "acc2", "acc3"]
    eps = ["A", "B", "C"]
    for pi, pat in enumerate(patterns(tier, seed)):
        variants = [("first registration", {}), ("forgotten between runs", {"forget": True}), ("contacts changed between runs", {"edit": True}),
                    ("CA answers accountDoesNotExist to newOrder", {"adne": True}),
                    # the CA reads a request (and consumes its nonce) but the answer never arrives; the other certificates carry on
                    ("answer lost on a shared endpoint", {"lost": True})]
        # the CA refuses newOrder for another reason than an unknown account (every error type the client does not retry, in turn): no excuse
        # for a second registration
        likely = ["unauthorized", "rejectedIdentifier", "userActionRequired", "externalAccountRequired", "caa", "unsupportedIdentifier", "compound"]
        refusals = likely + [t for t in flows.NONREC if t != "accountDoesNotExist" and t not in likely]
        # two types per endpoint (the first newOrder gets one, every later one the next): ten patterns walk through all sixteen
        refuse = ("CA refuses newOrder (not: account unknown)", {"refuse": 2 * pi + seed - 1})
        if tier != "thorough":
            variants = [variants[0], variants[1 + (pi + seed) % 4]] + ([variants[4]] if (pi + seed) % 4 != 3 else []) + [refuse]
        else:
            variants = variants + [("CA refuses newOrder (not: account unknown)", {"refuse": k}) for k in range(pi % 2, len(refusals), 2)]
        for vname, v in variants:
            for workers in ((1, 2, 4, 16) if tier == "thorough" else (rng.choice([1, 2, 4, 16]),)):
                used_a = sorted({a for a, _ in pat})
                used_e = sorted({e for _, e in pat})
                certs = [simple_cert("t%d" % (i + 1), account=accs[a], endpoint=eps[e]) for i, (a, e) in enumerate(pat)]
                dseed = rng.randrange(10 ** 6)

                def delay(kind, r, dseed=dseed):
                    return r.choice([0, 0, 0, 2, 5, 15, 40])
                endpoints = {}
                for e in used_e:
                    sc = []
                    if v.get("adne"):
                        sc = [{"kind": "newOrder", "nth": 1 + rng.randrange(2), "fault": "acme:accountDoesNotExist:400", "repeat": 1}]
                    if v.get("refuse") is not None:
                        k = v["refuse"] + 8 * e
                        sc = [{"kind": "newOrder", "nth": 1, "fault": "acme:%s:403" % refusals[k % len(refusals)], "repeat": 1},
                              {"kind": "newOrder", "nth": 2, "fault": "acme:%s:400" % refusals[(k + 1) % len(refusals)], "repeat": 10 ** 6}]
                    if v.get("lost"):
                        sc = [{"kind": rng.choice(["newOrder", "newAccount", "authz"]), "nth": 1, "fault": "drop_after", "repeat": 1}]
                    # every other scenario: a CA whose account objects carry no `orders` member (optional; Boulder omits it)
                    endpoints[eps[e]] = {"ca": {"delay": delay, "seed": dseed, "orders_field": len(specs) % 2 == 1}, "script": sc}
                accounts = [{"name": accs[a], "contacts": [{"mailto": "%s@example.org" % accs[a]}]} for a in used_a]
                steps = [("run", {"attempts": 1, "env": {"TOKIO_WORKER_THREADS": str(workers)}})]
                if v.get("forget"):
                    steps.append(("call", lambda s: [ca.forget_account() for ca in s.cas.values()]))
                    steps.append(("run", {"attempts": 1, "env": {"TOKIO_WORKER_THREADS": str(workers)}}))
                if v.get("edit"):
                    def edit(s):
                        s.accounts = [dict(a, contacts=[{"mailto": "new-%s@example.org" % a["name"]}]) for a in s.accounts]
                    steps.append(("call", edit))
                    steps.append(("run", {"attempts": 1, "env": {"TOKIO_WORKER_THREADS": str(workers)}}))
                sp = dict(tag="C12/s%03d" % len(specs), certs=certs, endpoints=endpoints, accounts=accounts, steps=steps, timeout=90,
                          meta={"family": vname + (" from %s on" % refusals[v["refuse"] % len(refusals)] if v.get("refuse") is not None else ""), "pattern": pat, "workers": workers, "delay_seed": dseed, "orders_member": len(specs) % 2 == 1})
                specs.append(flowcheck.prepare(sp))
    return specs


def locks_layer(x):
    out = [{"e": "Reset"}]
    tid = lambda c: (c or "none").split("_")[0] or "none"
    acct_key = {}
    for e in x["events"]:
        src, ev = e.get("src"), e.get("ev")
        if src == "drv":
            if ev == "DaemonStart":
                out.append({"e": "DaemonStart"})
            elif ev == "DaemonEnd":
                out.append({"e": "DaemonEnd", "clean": e.get("rc") == 0 and not e.get("hung")})
        elif src == "acmed":
            if ev in ("LockReq", "LockAcq", "LockRel"):
                t = tid(e.get("owner") if ev == "LockRel" else e.get("cert"))
                out.append({"e": ev, "task": t, "lock": e["lock"].split(":", 1), "mode": e["mode"]})
            elif ev in ("HttpPost", "HttpGet"):
                out.append({"e": "Http", "task": tid(e.get("cert")), "ep": e["ep"]})
            elif ev == "AttemptStart":
                out.append({"e": "AttemptStart", "task": tid(e.get("cert"))})
            elif ev == "AttemptEnd":
                out.append({"e": "AttemptEnd", "task": tid(e.get("cert"))})
        elif src == "ca":
            if ev == "CaReq" and e.get("kind") == "newAccount" and (e.get("detail") or {}).get("thumb"):
                d = e["detail"]
                if d.get("created"):
                    acct_key[(e["ep"], d["acct"])] = d["thumb"]
                    out.append({"e": "Created", "key": d["thumb"], "ep": e["ep"]})
                if (d.get("accepted") or d.get("created")) and project.ca_answer(e)[0] == "ok":
                    # every newAccount REQUEST the CA accepted AND answered, whether it created the account or found it
                    # (a registration whose answer was lost has to be asked for again: the daemon never learnt the account URL)
                    out.append({"e": "RegReq", "key": d["thumb"], "ep": e["ep"]})
            elif ev == "CaReq" and e.get("resp_type") and "accountDoesNotExist" in str(e.get("resp_type")):
                k = acct_key.get((e["ep"], (e.get("post") or {}).get("kid_acct")))
                if k:
                    out.append({"e": "Unknown", "key": k, "ep": e["ep"]})
            elif ev == "CaForget":
                for a in e.get("accounts", []):
                    k = acct_key.get((e["ep"], a))
                    if k:
                        out.append({"e": "Lost", "key": k, "ep": e["ep"]})
    return out


def run(ctx):
    mc = model(ctx.tier)
    specs = specs_for(ctx.tier, ctx.seed)
    results = flows.run_many(specs, workers=8)
    lines, owner = [], []
    for i, x in enumerate(results):
        for e in locks_layer(x):
            lines.append(e)
            owner.append(i)
    root = fresh_dir("C12", "tv")
    path = os.path.join(root, "locks.ndjson")
    open(path, "w").write("".join(json.dumps(e) + "\n" for e in lines))
    tv = tlc.validate_trace("Trace_Locks", TRACE_CFG % tlc.tla_set(LABELS), "C12_tv", path, timeout=3000, heap="12g")
    if tv["hard_errors"] or tv["unmatched"] is not None:
        raise ToolError("TLC failed on the lock trace: %s unmatched=%s %s (%s)" % (tv["hard_errors"][:2], tv["unmatched"],
                        lines[tv["unmatched"] - 1] if tv["unmatched"] else "", tv["out_path"]))
    seen = set()

    def rep(o, labs, ev):
        if (o, tuple(labs)) in seen:
            return
        seen.add((o, tuple(labs)))
        x = results[o]
        rp = save_replay("C12", os.path.basename(x["tag"]), {"scenario.json": {k: v for k, v in x["meta"].items() if k not in ("flow", "hook_types")},
                                                            "trace.ndjson": os.path.join(x["world"], "trace.ndjson"), "violated.json": {"labels": labs, "event": ev}})
        ctx.verdict.violation("%s in %s at %s" % (labs, {k: x["meta"][k] for k in ("family", "pattern", "workers")}, json.dumps(ev)[:200]), rp)
    for ln, labs in tv["bad"]:
        rep(owner[ln - 1], labs, lines[ln - 1])
    # no request on a shared endpoint re-uses a nonce consumed by another certificate's request: the endpoint ledgers (AcmeHttp, C04_Fresh)
    eps = lambda r: sorted({e["ep"] for e in r["events"] if e.get("src") == "ca" and "ep" in e})
    nbad, unmatched, nstats, _ = httpcheck.validate("C12/nonce", results, ["C04_Fresh"], eps=eps)
    if unmatched:
        raise ToolError("endpoint trace not explained by Trace_AcmeHttp: %s" % (unmatched,))
    for idx, labs, ev in nbad:
        rep(idx, ["C12_NoNonceSharing"], ev)
    lock_events = sum(1 for e in lines if e["e"].startswith("Lock"))
    cov = {"states": mc["states"], "transitions": mc["transitions"], "traces_validated_against_impl": len(results),
           "samples": [{k: results[i]["meta"][k] for k in ("family", "pattern", "workers")} for i in (0, len(results) // 2, len(results) - 1)],
           "model": mc, "lock_events_judged": lock_events, "http_requests_judged": sum(1 for e in lines if e["e"] == "Http"),
           "accounts_created": sum(1 for e in lines if e["e"] == "Created"), "nonce_ledger": nstats,
           "worker_thread_counts": sorted({r["meta"]["workers"] for r in results}), "exhaustive": False,
           "rule": "model: every interleaving of the lock programs of 2-3 certificates in each sharing pattern of accounts and endpoints (write-preferring RwLock, first "
                   "registration, CA losing the account) - deadlock freedom, termination, register-once; implementation: 2..8 certificates over 1..3 accounts and 1..3 "
                   "endpoints with seeded per-response delays and 1/2/4/16 runtime workers; every lock request is judged against the discipline the model relies on, "
                   "every HTTP request must happen under the endpoint write lock, account creations are counted per (key, endpoint), nonce freshness per endpoint ledger"}
    return {"coverage": cov, "assumptions": [
        "'all schedules' is transferred to the code through the lock discipline (account before endpoint, no re-entry, no upgrade) that the model needs and that is judged "
        "on every observed lock request, plus program conformance; the lock implementation (async-lock) itself is trusted",
        "the daemon drives all renewals from one task: worker-thread count cannot change the interleavings, only await order can"]}
