"""C05 - each authorization is solved with the configured challenge and the right proof."""
import os
import itertools, random
import flows, flowcheck
from common import ToolError
from scenario import simple_cert

NEEDS = ["acmed"]
KEY_TYPES = ["rsa2048", "rsa4096", "ecdsa_p256", "ecdsa_p384", "ecdsa_p521", "ed25519", "ed448"]


def id_sets():
    a, w = "name.example.org", "*.name.example.org"
    sets = {
        "name+wildcard": [{"dns": a, "challenge": "http-01"}, {"dns": w, "challenge": "dns-01"}],
        "wildcard+name": [{"dns": w, "challenge": "dns-01"}, {"dns": a, "challenge": "tls-alpn-01"}],
        "name+wildcard same type": [{"dns": a, "challenge": "dns-01"}, {"dns": w, "challenge": "dns-01"}],
        "wildcard only": [{"dns": w, "challenge": "dns-01"}],
        "three names three types": [{"dns": "h.example.org", "challenge": "http-01"}, {"dns": "d.example.org", "challenge": "dns-01"},
                                    {"dns": "t.example.org", "challenge": "tls-alpn-01"}],
        "ipv4+ipv6": [{"ip": "203.0.113.9", "challenge": "tls-alpn-01"}, {"ip": "2001:db8::5:6", "challenge": "http-01"},
                      {"ip": "2001:db8::7", "challenge": "tls-alpn-01"}],
        # IPv6 addresses whose text form is short because of zero groups in front: the reverse-DNS name has 32 nibbles all the same
        "ipv6 with leading zero groups": [{"ip": "::1", "challenge": "tls-alpn-01"}, {"ip": "64:ff9b::c000:221", "challenge": "tls-alpn-01"},
                                          {"ip": "100::1", "challenge": "tls-alpn-01"}, {"ip": "::1:0:0:0:2", "challenge": "tls-alpn-01"},
                                          {"ip": "fe80::1", "challenge": "tls-alpn-01"}, {"ip": "0.0.0.1", "challenge": "tls-alpn-01"}],
        "name+ip": [{"dns": "n.example.org", "challenge": "tls-alpn-01"}, {"ip": "10.1.2.3", "challenge": "tls-alpn-01"}],
        "sub and parent": [{"dns": "example.org", "challenge": "dns-01"}, {"dns": "*.example.org", "challenge": "dns-01"},
                           {"dns": "sub.example.org", "challenge": "http-01"}, {"dns": "*.sub.example.org", "challenge": "dns-01"}],
    }
    return sets


def specs_for(tier, seed):
    rng = random.Random(seed)
    specs = []

    def add(name, ids, ca=None, meta=None, accounts=None, attempts=1, hooks=None, hooks_fail=False):
        sp = dict(tag="C05/s%04d" % len(specs), certs=[simple_cert("c%d" % len(specs), ids=ids)], attempts=attempts,
                  endpoints={"A": {"ca": ca or {}}}, meta=dict(meta or {}, set=name, ca=ca or {}))
        if accounts:
            sp["accounts"] = accounts
        if hooks:
            sp["hooks"] = hooks
        sp = flowcheck.prepare(sp)
        # a conforming CA that offers the configured challenge types and leaves every authorization pending or valid: issuance must go through
        c = ca or {}
        solvable = (not hooks_fail and all(v == "valid" for v in (c.get("authz_status") or {}).values()) and c.get("wildcard_field", True)
                    and ("offered" not in c or all(i["challenge"] in c["offered"] for i in ids)))
        sp["meta"]["healthy"] = {cid: bool(solvable) for cid in sp["meta"]["flow"]}
        specs.append(sp)

    for name, ids in id_sets().items():
        n = len(ids)
        add(name, ids, meta={"family": "as configured"})
        perms = list(itertools.permutations(range(n)))
        if tier != "thorough":
            perms = [perms[-1]] + rng.sample(perms, min(2, len(perms)))
        for p in perms:
            for cp in ([[0, 1, 2], [2, 1, 0], [1, 2, 0], [2, 0, 1]] if tier == "thorough" else [[2, 1, 0], rng.choice([[1, 2, 0], [2, 0, 1]])]):
                add(name, ids, ca={"authz_perm": list(p), "chall_perm": cp}, meta={"family": "CA lists authorizations/challenges in another order"})
        # authorizations offered in any status
        vals = [(i.get("dns") or i.get("ip")) for i in ids]
        for st in ("valid", "invalid", "deactivated", "expired", "revoked"):
            for v in (vals if tier == "thorough" else vals[:1] + vals[-1:]):
                add(name, ids, ca={"authz_status": {v: st}}, meta={"family": "authorization offered in status", "status": st, "ident": v})
        add(name, ids, ca={"authz_status": {"*": "valid"}}, meta={"family": "all authorizations already valid"})
        # authorization reuse: any subset already valid, in any position of the list
        subsets = [sub for k in range(1, n) for sub in itertools.combinations(vals, k)]
        if tier != "thorough" and len(subsets) > 4:
            subsets = subsets[:2] + rng.sample(subsets[2:], 2)
        for sub in subsets:
            add(name, ids, ca={"authz_status": {v: "valid" for v in sub}}, meta={"family": "some authorizations already valid", "valid": list(sub)})
        # CAs that offer a subset of challenge types
        for offered in (["http-01"], ["dns-01"], ["tls-alpn-01"], ["http-01", "dns-01"], ["dns-01", "tls-alpn-01"], ["tls-alpn-01", "http-01"]):
            if tier == "thorough" or rng.random() < 0.5:
                add(name, ids, ca={"offered": offered}, meta={"family": "CA offers a subset", "offered": offered})
        add(name, ids, ca={"wildcard_field": False}, meta={"family": "CA omits the wildcard flag"})
    # a challenge hook that ends badly (exit code, killed by a signal), with and without allow_failure: readiness may only be
    # posted when every hook of the challenge succeeded or was allowed to fail
    from daemon import standard_hooks
    for t in ("http-01", "dns-01", "tls-alpn-01"):
        for code, extra in (("3", []), ("0", ["--signal"])):
            for allow in (False, True):
                hooks = []
                for h in standard_hooks():
                    h = dict(h)
                    if h["name"] == "chall-" + t:
                        h = dict(h, args=["--hook", h["name"], "--exit-seq", code] + extra + h["args"][4:], allow_failure=allow)
                    hooks.append(h)
                add("three names three types", id_sets()["three names three types"], hooks=hooks, hooks_fail=not allow,
                    meta={"family": "challenge hook ends badly", "type": t, "exit": code, "signal": bool(extra), "allow_failure": allow})
    # two accounts in one daemon, each with its own key: every proof is made with the key of the account the order belongs to
    for kts in (("ecdsa_p256", "ecdsa_p384"), ("rsa2048", "ecdsa_p256"), ("ed25519", "ecdsa_p256")):
        ids3 = id_sets()["three names three types"]
        certs2 = [simple_cert("m%da" % len(specs), ids=ids3, account="accA"), simple_cert("m%db" % len(specs), ids=[dict(i, dns="x-" + i["dns"]) for i in ids3], account="accB")]
        sp = dict(tag="C05/s%04d" % len(specs), certs=certs2, attempts=1, endpoints={"A": {"ca": {}}},
                  accounts=[{"name": "accA", "contacts": [{"mailto": "a@example.org"}], "key_type": kts[0]}, {"name": "accB", "contacts": [{"mailto": "b@example.org"}], "key_type": kts[1]}],
                  meta={"family": "two accounts in one daemon", "key_types": list(kts), "set": "three names three types", "ca": {}})
        sp = flowcheck.prepare(sp)
        sp["meta"]["healthy"] = {cid: True for cid in sp["meta"]["flow"]}
        specs.append(sp)
    # SEVERAL hooks of the challenge type (deploy, then reload): a failure of any of them that is not allowed to fail stops the call -
    # what the last one returns does not make up for it
    for t in ("http-01", "dns-01", "tls-alpn-01"):
        for code, extra in (("3", []), ("0", ["--signal"])):
            hooks = []
            for h in standard_hooks():
                h = dict(h)
                if h["name"] == "chall-" + t:
                    fails = dict(h, args=["--hook", h["name"], "--exit-seq", code] + extra + h["args"][4:])
                    hooks.append(fails)
                    h = dict(h, name="reload-" + t, args=["--hook", "reload-" + t] + h["args"][2:])
                hooks.append(h)
            add("three names three types", id_sets()["three names three types"], hooks=hooks, hooks_fail=True,
                meta={"family": "first of two challenge hooks ends badly", "type": t, "exit": code, "signal": bool(extra)})
    # one script that serves a challenge type AND file events (deploy the proof, push new files to the front-end): it is still the
    # challenge hook of its type - and its clean counterpart likewise
    for t in ("http-01", "dns-01", "tls-alpn-01"):
        hooks = []
        for h in standard_hooks():
            h = dict(h)
            if h["name"] == "chall-" + t:
                h["type"] = list(h["type"]) + ["file-post-create", "file-post-edit"]
            elif h["name"] == "clean-" + t:
                h["type"] = list(h["type"]) + ["file-pre-edit"]
            hooks.append(h)
        add("three names three types", id_sets()["three names three types"], hooks=hooks,
            meta={"family": "challenge hook that also has file event types", "type": t})
    # the account key was changed in the configuration but the CA refuses (or never answers) the roll-over: whatever the daemon
    # does next, a proof it deploys has to be the one for the key the CA holds for the account
    for fault in ("acme:unauthorized:403", "acme:badPublicKey:400", "drop_after"):
        sp = dict(tag="C05/s%04d" % len(specs), certs=[simple_cert("c%d" % len(specs), ids=id_sets()["three names three types"])],
                  accounts=[{"name": "acc1", "contacts": [{"mailto": "a@example.org"}], "key_type": "ecdsa_p256"}],
                  endpoints={"A": {"script": [{"kind": "keyChange", "nth": 1, "fault": fault, "repeat": 1}]}},
                  meta={"family": "key roll-over refused by the CA", "fault": fault, "set": "three names three types", "ca": {}})
        def rekey(sc):
            sc.accounts = [dict(a, key_type="ecdsa_p384") for a in sc.accounts]
        sp["steps"] = [("run", {"attempts": 1}), ("call", rekey), ("run", {"attempts": 1})]
        sp = flowcheck.prepare(sp)
        sp["meta"]["healthy"] = {cid: False for cid in sp["meta"]["flow"]}
        specs.append(sp)
    # all account key types (the thumbprint enters every proof)
    for kt in KEY_TYPES:
        for name in (["three names three types", "ipv4+ipv6", "name+wildcard"] if tier == "thorough" else ["three names three types"]):
            add(name, id_sets()[name], accounts=[{"name": "acc1", "contacts": [{"mailto": "a@example.org"}], "key_type": kt}],
                meta={"family": "account key type", "key_type": kt})
    # renewals: clean hooks and second rounds
    add("three names three types", id_sets()["three names three types"], meta={"family": "two issuances"}, attempts=2)
    return specs


def run(ctx):
    os.environ["VERIF_TOKEN_SHAPES"] = "1"       # the mock CA's tokens begin and end with `-` / `_` in turn (lib/mockca.py)
    mc = flowcheck.model_check("C05", ctx.tier)
    specs = specs_for(ctx.tier, ctx.seed)
    results = flows.run_many(specs, workers=12)
    for r in results:
        if any(x["hung"] for x in r["runs"]):
            raise ToolError("daemon hung in %s" % {k: v for k, v in r["meta"].items() if k not in ("flow", "hook_types")})

    def known(r, labs, ev):
        # a CA that does not flag wildcard authorizations gives the client nothing to tell the two entries apart
        if r["meta"].get("family") == "CA omits the wildcard flag":
            return "C05-ca-without-wildcard-flag"
        return None
    # scenarios with a non-conforming CA (no wildcard flag) are run for the record only
    conforming = [r for r in results if r["meta"].get("family") != "CA omits the wildcard flag"]
    bad, stats, path = flowcheck.validate("C05/tv", conforming, flowcheck.L05)
    flowcheck.report(ctx, "C05", conforming, bad)
    fb, fstats, _ = flowcheck.validate("C05/fid", results, flowcheck.ALL)
    hooks = sum(1 for r in results for e in r["events"] if e.get("src") == "hook" and e.get("phase") == "end" and e.get("hook", "").startswith("chall-"))
    cleans = sum(1 for r in results for e in r["events"] if e.get("src") == "hook" and e.get("phase") == "end" and e.get("hook", "").startswith("clean-"))
    chal_posts = sum(1 for r in results for e in r["events"] if e.get("ev") == "CaReq" and e.get("kind") == "challenge")
    succ = sum(1 for r in results for e in r["events"] if e.get("ev") == "AttemptEnd" and e.get("is_success"))
    cov = {"states": mc["states"], "transitions": mc["transitions"], "traces_validated_against_impl": len(conforming),
           "samples": [{k: v for k, v in r["meta"].items() if k not in ("flow", "hook_types")} for r in results[:2] + results[-2:]],
           "model": mc, "trace_validation": stats, "challenge_hooks_judged": hooks, "clean_hooks_judged": cleans,
           "challenge_posts_judged": chal_posts, "successful_attempts": succ,
           "model_fidelity": {"all_labels_clean": not fb, "bad": [({k: v for k, v in results[i]["meta"].items() if k not in ("flow", "hook_types")}, l) for i, l, _ in fb[:6]]},
           "exhaustive": False,
           "rule": "identifier sets in which a name and its wildcard, several names, and IPv4/IPv6 addresses use different challenge types; every (quick: sampled) "
                   "order of authorizations and challenges; authorizations offered in every status, any subset already valid (the rest must still be solved: a solvable issuance must succeed); CAs offering subsets of challenge types; a key roll-over the CA refuses or leaves unanswered; challenge hooks that exit non-zero or are killed by a signal, with and without allow_failure; all 7 account "
                   "key types. Expected proofs are computed by the CA from the registered JWK (RFC 7638 thumbprint built by the vcrypto oracle)."}
    return {"coverage": cov, "assumptions": [
        "a conforming CA marks wildcard authorizations with wildcard=true (RFC 8555 7.1.4); runs against a CA that omits the flag are recorded in model_fidelity only",
        "the recorder hook echoes every template variable; the expected tls-alpn-01 text form is built by the harness from RFC 8737 (OID 1.3.6.1.5.5.7.1.31, critical, OCTET STRING)"]}
