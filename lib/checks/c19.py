"""C19 - any configuration either loads or is rejected with an error, never a crash."""
import copy, json, os, random, shutil
import tlc, flows, flowcheck
from common import fresh_dir, ToolError, save_replay
from daemon import probe, toml_dumps, Raw
from scenario import simple_cert

NEEDS = ["acmed"]
LABELS = ["C19_PeriodGrammar", "C19_PeriodValue", "C19_NoCrash", "C19_LoadsOrRejects", "C19_CycleRejected"]
MC_CFG = """SPECIFICATION MCSpec
CONSTANTS
  Enforce = %s
  Deviations = %s
  Alphabet = {"0","1","9","s","m","w","x"}
  MaxLen = %d
INVARIANTS NoBad Emit
CHECK_DEADLOCK FALSE
"""
TRACE_CFG = """SPECIFICATION TSpec
CONSTANTS
  Enforce = %s
  Deviations = {}
  Alphabet = {}
  MaxLen = 0
POSTCONDITION Accepted
CHECK_DEADLOCK FALSE
"""
U64 = 2 ** 64


def period_points(strings):
    """Runs the real parse_duration on each string; returns Trace_Period events."""
    out = []
    for k in range(0, len(strings), 4000):
        chunk = strings[k:k + 4000]
        r = probe("period", {"strings": chunk}, timeout=300)
        if not r.get("ok"):
            raise ToolError("period probe failed: %s" % str(r)[:300])
        for s, res in zip(chunk, r["results"]):
            # the answer in the specification's number format: base-1000 limbs, least significant first
            ev = {"e": "Period", "chars": list(s), "ok": bool(res.get("ok")), "panic": bool(res.get("panic")), "val": []}
            if res.get("ok"):
                tot = int(res["secs"])
                while tot:
                    ev["val"].append(tot % 1000)
                    tot //= 1000
            out.append(ev)
    return out


def boundary_strings():
    mult = {"s": 1, "m": 60, "h": 3600, "d": 86400, "w": 604800}
    out = []
    for u, m in mult.items():
        edge = (U64 - 1) // m
        for n in (edge - 1, edge, edge + 1, U64 - 1, U64, U64 + 1, 10 ** 30):
            out.append("%d%s" % (n, u))
    out += ["18446744073709551615s1s", "9223372036854775807s9223372036854775807s2s", "0s", "00000s", "0w0d0h0m0s", "1h30m", "1w2d3h4m5s",
            "5s4m3h2d1w", "1s1s1s", "01h", "1H", "1 h", " 1h", "1h ", "h", "1", "", "-1s", "+1s", "1.5h", "1e3s", "١s", "1h\n", "99999w99999w",
            # letters of more than one byte, wherever they may stand (a pasted no-break space, a micro sign, full-width digits)
            "30\u00a0d", "5µs", "5é", "7日", "1d12ℎ", "é5d", "1dé", "5d\u00a0", "５d", "5ｄ", "1h😀", "😀", "1\u0301s"]
    return out


def base_cfg(sc):
    return sc.config()


def hazards():
    """(name, must, mutator) - mutator(cfg, scenario) -> cfg dict or TOML text"""
    hz = []

    def groups(cycle):
        def f(cfg, sc):
            names = ["g%d" % i for i in range(len(cycle))]
            cfg["group"] = [{"name": names[i], "hooks": [names[cycle[i]]] + ["post-operation"]} for i in range(len(cycle))]
            cfg["certificate"][0]["hooks"] = cfg["certificate"][0]["hooks"] + [names[0]]
            return cfg
        return f
    hz.append(("hook group containing itself", "error_exit", groups([0])))
    hz.append(("hook group cycle of length 2", "error_exit", groups([1, 0])))
    hz.append(("hook group cycle of length 3", "error_exit", groups([1, 2, 0])))

    # lassos: the group named by the certificate only LEADS to a cycle (g0 -> g1 -> g1, g0 -> g1 -> g2 -> g1, ...)
    hz.append(("hook group leading to a self-including group", "error_exit", groups([1, 1])))
    hz.append(("hook group leading to a cycle of length 2", "error_exit", groups([1, 2, 1])))
    hz.append(("hook group leading to a cycle of length 3 after two steps", "error_exit", groups([1, 2, 3, 4, 2])))

    def account_lasso(cfg, sc):
        cfg["group"] = [{"name": "ag0", "hooks": ["ag1"]}, {"name": "ag1", "hooks": ["ag2"]}, {"name": "ag2", "hooks": ["ag1"]}]
        cfg["account"][0]["hooks"] = list(cfg["account"][0].get("hooks") or []) + ["ag0"]
        return cfg
    hz.append(("account hook group leading to a cycle", "error_exit", account_lasso))

    def diamond(cfg, sc):
        # one group reached along two paths, and listed twice: no cycle, must load
        cfg["group"] = [{"name": "d0", "hooks": ["d1", "d2"]}, {"name": "d1", "hooks": ["d3"]}, {"name": "d2", "hooks": ["d3"]},
                        {"name": "d3", "hooks": ["post-operation"]}]
        cfg["certificate"][0]["hooks"] = cfg["certificate"][0]["hooks"] + ["d0", "d3", "d0"]
        return cfg
    hz.append(("hook groups forming a diamond (shared sub-group, no cycle)", "running", diamond))

    def unused_cycle(cfg, sc):
        cfg["group"] = [{"name": "u1", "hooks": ["u2"]}, {"name": "u2", "hooks": ["u1"]}]
        return cfg
    hz.append(("hook group cycle not used by anything", "running", unused_cycle))

    def acyclic_nested(cfg, sc):
        cfg["group"] = [{"name": "n1", "hooks": ["n2", "post-operation"]}, {"name": "n2", "hooks": ["n3"]}, {"name": "n3", "hooks": ["chall-http-01", "clean-http-01"]}]
        cfg["certificate"][0]["hooks"] = [h for h in cfg["certificate"][0]["hooks"] if h not in ("post-operation", "chall-http-01", "clean-http-01")] + ["n1"]
        return cfg
    hz.append(("nested groups without cycle", "running", acyclic_nested))

    def inc(n):
        def f(cfg, sc):
            cfg["include"] = ["i1.toml"]
            return cfg
        return f
    for n in (1, 2, 3):
        files = {}
        for i in range(1, n + 1):
            nxt = "acmed.toml" if i == n else "i%d.toml" % (i + 1)
            files["i%d.toml" % i] = "include = [\"%s\", \"i%d.toml\"]\n" % (nxt, i)
        hz.append(("include cycle through %d files" % n, "running", inc(n), files))

    def rl(number, period):
        def f(cfg, sc):
            cfg["rate-limit"] = [{"name": "z", "number": number, "period": period}]
            cfg["endpoint"][0]["rate_limits"] = ["z"]
            return cfg
        return f
    # the limiter polls every period*200/number ms (at most 1 h) and sleeps once before its first test: counts are chosen so that
    # this quantum stays far below the time-out of the run
    for number, period in ((0, "1s"), (0, "5s"), (0, "1h"), (1000000000, "1000w"), (50000000, "52w"), (3, "0s"), (Raw("18446744073709551615"), "1s"),
                           (100000, "3h"), (1000000, "1d"), (5, "1s")):
        hz.append(("rate limit %s per %s" % (number.s if isinstance(number, Raw) else number, period), "either", rl(number, period)))

    # several limits on one endpoint with a zero among them, in every position and relation of periods
    def rls(lims):
        def f(cfg, sc):
            cfg["rate-limit"] = [{"name": "z%d" % k, "number": n, "period": p} for k, (n, p) in enumerate(lims)]
            cfg["endpoint"][0]["rate_limits"] = ["z%d" % k for k in range(len(lims))]
            return cfg
        return f
    for lims in ([(2, "1s"), (0, "1h")], [(0, "1h"), (2, "1s")], [(5, "10s"), (0, "10s")], [(0, "10s"), (5, "10s")], [(0, "1s"), (7, "1m"), (9, "1h")],
                 [(7, "1s"), (0, "1m"), (9, "1h")], [(7, "1s"), (9, "1m"), (0, "1h")], [(0, "2s"), (0, "3s")], [(300, "60s"), (400, "1m")]):
        hz.append(("rate limits %s" % ", ".join("%d per %s" % l for l in lims), "either", rls(lims)))

    # valid periods meeting state a fresh directory never has: a stored certificate that is already due (expired an hour ago) while a
    # random advance is configured at one of the three levels
    def due_with_jitter(level, period):
        def f(cfg, sc):
            flowcheck.install_pair(cfg["certificate"][0], "pair")(sc)
            target = cfg["certificate"][0] if level == "certificate" else cfg["endpoint"][0] if level == "endpoint" else cfg.setdefault("global", {})
            target["random_early_renew"] = period
            return cfg
        return f
    for level, period in (("certificate", "2d"), ("endpoint", "1h30m"), ("global", "1s"), ("certificate", "0s")):
        hz.append(("stored certificate already due, random_early_renew = %s at the %s level" % (period, level), "running", due_with_jitter(level, period)))

    # powers of two and their neighbours (truncating casts, sign bits) with periods that take the dividing branch of the limiter
    for k in (8, 16, 31, 32, 33, 63, 64):
        for d in (-1, 0, 1):
            n = 2 ** k + d
            if n >= 2 ** 64:
                continue
            for period in ("2s", "1h"):
                hz.append(("rate limit %d per %s" % (n, period), "either", rl(Raw(str(n)), period)))
    hz.append(("rate limit 8589934592 per 10s", "either", rl(Raw("8589934592"), "10s")))

    def cert_field(k, v):
        def f(cfg, sc):
            cfg["certificate"][0][k] = v
            return cfg
        return f
    for v in ("18446744073709551615s", "18446744073709551616s", "30500568904944w", "18446744073709551615s1s", "99999999999999999999999w", "1x", "", "9999999999999w"):
        hz.append(("renew_delay = %r" % v, "either", cert_field("renew_delay", v)))
        hz.append(("random_early_renew = %r" % v, "either", cert_field("random_early_renew", v)))
    hz.append(("random_early_renew larger than everything", "either", cert_field("random_early_renew", "18446744073709551615s")))
    return hz


def field_mutations(cfg, rng, limit):
    """Field-by-field mutations of a valid configuration (deletion, duplication, type change, boundary and huge values)."""
    muts = []
    sections = [k for k, v in cfg.items() if isinstance(v, list) and v and isinstance(v[0], dict)]
    for sec in sections:
        for ti, table in enumerate(cfg[sec][:2]):
            for field in list(table.keys()):
                def deleter(sec=sec, ti=ti, field=field):
                    def f(c, sc):
                        c[sec][ti].pop(field, None)
                        return c
                    return f
                muts.append(("delete %s[%d].%s" % (sec, ti, field), deleter()))
                for label, val in (("int", 42), ("negative", Raw("-1")), ("huge int", Raw("99999999999999999999")), ("bool", True), ("empty string", ""),
                                   ("list", []), ("long string", "x" * 5000), ("float", Raw("1.5")), ("table", {"a": 1})):
                    def setter(sec=sec, ti=ti, field=field, val=val):
                        def f(c, sc):
                            c[sec][ti][field] = val
                            return c
                        return f
                    muts.append(("%s[%d].%s := %s" % (sec, ti, field, label), setter()))
        def dup(sec=sec):
            def f(c, sc):
                c[sec] = c[sec] + [copy.deepcopy(c[sec][0])]
                return c
            return f
        muts.append(("duplicate first %s" % sec, dup()))
        def drop(sec=sec):
            def f(c, sc):
                c.pop(sec, None)
                return c
            return f
        muts.append(("remove all %s" % sec, drop()))
    for field, vals in (("cert_file_mode", [Raw("0o7777"), Raw("4294967295"), Raw("4294967296"), Raw("-1"), "0644"]), ("pk_file_mode", [Raw("0"), Raw("0o777777")]),
                        ("unknown_key", [1]), ("accounts_directory", [7, ""]), ("env", [{"A": 1}, "x"]), ("root_certificates", ["/nonexistent", ["/nonexistent.pem"]])):
        for v in vals:
            def gset(field=field, v=v):
                def f(c, sc):
                    c["global"][field] = v
                    return c
                return f
            muts.append(("global.%s := %s" % (field, v.s if isinstance(v, Raw) else v), gset()))
    raw = ["", "[[certificate]]\n", "this is not toml", "[global]\n[global]\n", "include = [\"/nonexistent/*.toml\"]\n@GLOBAL@", "[[endpoint]]\nname = 1\n",
           "\x00\x01\x02", "[global]\naccounts_directory = \"\\ud800\"\n"]
    for i, t in enumerate(raw):
        muts.append(("raw text #%d" % i, (lambda t: (lambda c, sc: t))(t)))
    rng.shuffle(muts)
    return muts if limit is None else muts[:limit]


MUT_VALUES = (("int", 42), ("negative", Raw("-1")), ("huge int", Raw("99999999999999999999")), ("bool", True), ("empty string", ""),
              ("list", []), ("long string", "x" * 5000), ("float", Raw("1.5")), ("table", {"a": 1}))


def loader_points(template, tier, seed, root):
    """Every single field mutation, and every PAIR (delete one field of a table, mutate another field of the same table), given to the real
    configuration loader (MainEventLoop::new through the config-dump probe): it must load or refuse, never crash or hang."""
    import concurrent.futures as cf
    from daemon import probe, toml_dumps
    sections = [k for k, v in template.items() if isinstance(v, list) and v and isinstance(v[0], dict)]
    points = []
    for sec in sections:
        table = template[sec][0]
        fields = list(table.keys())
        singles = [(f, "delete", None) for f in fields] + [(f, lab, val) for f in fields for lab, val in MUT_VALUES]
        for f, lab, val in singles:
            points.append(("%s.%s %s" % (sec, f, lab), [(sec, f, lab, val)]))
        for f1 in fields:
            for f2, lab, val in singles:
                if f2 != f1:
                    points.append(("%s: delete %s and %s %s" % (sec, f1, f2, lab), [(sec, f1, "delete", None), (sec, f2, lab, val)]))
    if tier != "thorough":
        # quick: every pair whose second half is a deletion, an empty list or an empty string (the shapes fall-back code meets), half of the others
        rng = random.Random(seed)
        pairs = [p for p in points if len(p[1]) == 2]
        core = [p for p in pairs if p[1][1][2] in ("delete", "list", "empty string")]
        rest = [p for p in pairs if p not in core]
        points = [p for p in points if len(p[1]) == 1] + core + rng.sample(rest, len(rest) // 2)

    def one(args):
        i, (name, muts) = args
        d = os.path.join(root, "l%05d" % i)
        os.makedirs(d, exist_ok=True)
        c = copy.deepcopy(template)
        c["global"] = dict(c.get("global") or {}, accounts_directory=os.path.join(d, "a"), certificates_directory=os.path.join(d, "c"))
        for sec, f, lab, val in muts:
            if lab == "delete":
                c[sec][0].pop(f, None)
            else:
                c[sec][0][f] = val
        conf = os.path.join(d, "acmed.toml")
        open(conf, "w").write(toml_dumps(c))
        r = probe("config-dump", {"config": conf}, timeout=60)
        if r.get("hung"):
            out, msg, rc = "hang", False, -999
        elif r.get("crashed"):
            out, msg, rc = "crash", False, r.get("rc") if r.get("rc") is not None else -999
        elif r.get("ok"):
            out, msg, rc = "running", False, 0
        else:
            out, msg, rc = "error_exit", bool(r.get("error")), 1
        keep = None
        if out in ("crash", "hang"):
            keep = {"acmed.toml": open(conf).read(), "probe.json": json.dumps({k: v for k, v in r.items() if k != "stderr"}) + "\n" + (r.get("panic") or r.get("stderr", "")[-600:])}
        shutil.rmtree(d, ignore_errors=True)
        return {"e": "Start", "hazard": "loader: " + name, "outcome": out, "message": msg, "must": "either", "rc": rc}, keep
    with cf.ThreadPoolExecutor(max_workers=12) as ex:
        return list(ex.map(one, list(enumerate(points))))


def limiter_points():
    """The limiter's own arithmetic (polling quantum = period * 200 / number ms, window = now - period) for counts and periods up to the
    limits of their types, through the ratelimit probe with a short call time-out: the first call either returns, is still (rightly)
    waiting when the time-out strikes, or the limit is refused - a panic is a crash."""
    import concurrent.futures as cf
    periods = ["2s", "1h", "52w", "1000w", "92233720368547758s", "92233720368547759s", "9223372036854775807s", "18446744073709551615s", "30500568904943w"]
    numbers = [1, 2, 20, 1000000, 4294967295]
    pts = [(n, p) for n in numbers for p in periods]

    def one(np):
        n, p = np
        r = probe("ratelimit", {"limits": [[n, p]], "calls": [0, 0], "call_timeout_ms": 250}, timeout=60)
        if r.get("hung"):
            out, rc = "hang", -999
        elif r.get("crashed"):
            out, rc = "crash", r.get("rc") if r.get("rc") is not None else -999
        elif r.get("ok"):
            out, rc = "running", 0
        else:
            out, rc = "error_exit", 1
        return {"e": "Start", "hazard": "limiter arithmetic: %d per %s" % (n, p), "outcome": out, "message": out == "error_exit", "must": "either", "rc": rc}, \
            ({"probe.json": json.dumps({k: v for k, v in r.items() if k != "stderr"}) + "\n" + (r.get("panic") or "")} if out in ("crash", "hang") else None)
    with cf.ThreadPoolExecutor(max_workers=12) as ex:
        return list(ex.map(one, pts))


def classify(run):
    rc, err = run["rc"], run["stderr_tail"]
    if run["hung"]:
        return "hang", False
    if rc is not None and rc < 0:
        return "crash", False
    if rc == 101 or run.get("stderr_has_panic"):
        return "crash", False
    return None, bool(run.get("stderr_has_error"))


def run(ctx):
    rng = random.Random(ctx.seed)
    maxlen = 5 if ctx.tier == "thorough" else 4
    r = tlc.model_check("Period", MC_CFG % (tlc.tla_set(LABELS), "{}", maxlen), "C19_mc", workers=8, timeout=1500, required_actions=["MCNext"])
    if r["violated"]:
        raise ToolError("Period: model inconsistent (%s)" % r["out_path"])
    # strings long enough to overflow 64-bit seconds ("9"*14 + "w" and longer) over a small alphabet: the clamping parser must be caught
    rd = tlc.model_check("Period", MC_CFG.replace('{"0","1","9","s","m","w","x"}', '{"9","w"}').replace("INVARIANTS NoBad Emit", "INVARIANTS NoBad")
                         % (tlc.tla_set(LABELS), '{"SaturatingPeriod"}', 15), "C19_dev", workers=8, timeout=900)
    if not rd["violated"]:
        raise ToolError("Period model sanity: a parser that clamps an overflowing period is not caught")
    strings = ["".join(cs) for cs in tlc.replays(r["raw"])]
    rnd = []
    alpha = "0123456789smhdwx " + "0123456789smhdw" + "µé日\u00a0"
    for _ in range(3000 if ctx.tier == "thorough" else 400):
        rnd.append("".join(rng.choice(alpha) for _ in range(rng.randint(1, 9))))
    lines = period_points(strings + boundary_strings() + rnd)
    n_period = len(lines)
    # hazards and field mutations against the real daemon (first request included)
    cert = simple_cert("c1")
    specs, musts = [], []
    for h in hazards():
        name, must, mut = h[0], h[1], h[2]
        extra = h[3] if len(h) > 3 else None
        sp = flowcheck.prepare(dict(tag="C19/h%03d" % len(specs), certs=[cert], attempts=1, timeout=40, cfg_mutator=mut, extra_files=extra,
                                    meta={"family": "hazard", "hazard": name, "must": must}))
        specs.append(sp)
    base = flows.run_one(flowcheck.prepare(dict(tag="C19/base", certs=[cert], attempts=1)))
    from scenario import Scenario
    tmp = Scenario(**{k: v for k, v in flowcheck.prepare(dict(tag="C19/tmpl", certs=[cert])).items() if k not in ("meta", "steps")}).setup()
    template = tmp.config()
    template["global"] = {"accounts_directory": "x", "certificates_directory": "y"}
    tmp.close()
    muts = field_mutations(template, rng, None if ctx.tier == "thorough" else 90)
    for name, mut in muts:
        def wrap(mut=mut):
            def f(cfg, sc):
                out = mut(cfg, sc)
                if isinstance(out, str):
                    return out.replace("@GLOBAL@", "")
                return out
            return f
        specs.append(flowcheck.prepare(dict(tag="C19/m%04d" % len(specs), certs=[cert], attempts=1, timeout=40, cfg_mutator=wrap(),
                                            meta={"family": "field mutation", "hazard": name, "must": "either"})))
    results = flows.run_many(specs, workers=12)
    lpoints = loader_points(template, ctx.tier, ctx.seed, fresh_dir("C19", "loader")) + limiter_points()
    owner = [None] * n_period
    for i, x in enumerate(results):
        run0 = x["runs"][0]
        cls, msg = classify(run0)
        attempts = sum(1 for e in x["events"] if e.get("ev") == "AttemptEnd")
        if cls is None:
            cls = "running" if (run0["rc"] == 0 and attempts >= 1) else "error_exit"
        lines.append({"e": "Start", "hazard": x["meta"]["hazard"], "outcome": cls, "message": bool(msg), "must": x["meta"]["must"], "rc": run0["rc"] if run0["rc"] is not None else -999})
        owner.append(i)
    lkeep = {}
    for ev, keep in lpoints:
        lines.append(ev)
        owner.append(None)
        if keep:
            lkeep[len(lines)] = keep
    root = fresh_dir("C19", "tv")
    path = os.path.join(root, "c19.ndjson")
    open(path, "w").write("".join(json.dumps(e) + "\n" for e in lines))
    tv = tlc.validate_trace("Trace_Period", TRACE_CFG % tlc.tla_set(LABELS), "C19_tv", path, timeout=1800, heap="8g")
    if tv["hard_errors"] or tv["unmatched"] is not None:
        raise ToolError("TLC failed on the C19 trace: %s %s (%s)" % (tv["hard_errors"][:2], tv["unmatched"], tv["out_path"]))
    seen = set()
    for ln, labs in tv["bad"]:
        ev = lines[ln - 1]
        key = (ev["e"], tuple(labs), ev.get("hazard") if ev["e"] == "Start" else "".join(ev["chars"])[:12])
        if key in seen or len(seen) > 40:
            continue
        seen.add(key)
        o = owner[ln - 1]
        files = {"point.json": ev, "violated.json": labs}
        if ln in lkeep:
            files.update(lkeep[ln])
        if o is not None:
            files["acmed.toml"] = os.path.join(results[o]["world"], "acmed.toml")
            files["stderr.txt"] = results[o]["runs"][0]["stderr_tail"]
        rp = save_replay("C19", "pt%05d" % ln, files)
        ctx.verdict.violation("%s at %s" % (labs, json.dumps(ev)[:300]), rp)
    # every small hook-group graph (Groups.tla) through the real configuration loader
    import groupcheck
    gbad, gcov = groupcheck.run_family("C19/groups", ctx.tier, ctx.seed, groupcheck.LABELS_C19)
    for labs, ev in gbad[:10]:
        rp = save_replay("C19", "groups%03d" % len(seen), {"graph.json": ev, "violated.json": labs})
        seen.add(("groups", len(seen)))
        ctx.verdict.violation("%s: hook groups %s listed as %s by the %s: %s %s" % (labs, json.dumps(ev["bodies"]), ev["start"], ev["where"], ev["obs"]["kind"], ev["detail"]), rp)
    outcomes = {}
    for e in lines[n_period:]:
        outcomes[e["outcome"]] = outcomes.get(e["outcome"], 0) + 1
    cov = {"states": r["distinct"], "transitions": r["generated"], "traces_validated_against_impl": len(lines),
           "samples": [lines[5], lines[n_period - 1], lines[n_period], lines[-1]], "period_strings_judged": n_period,
           "period_strings_enumerated_by_tlc": len(strings), "daemon_starts_judged": len(results), "loader_points_judged": len(lpoints), "outcomes": outcomes, "hook_group_graphs": gcov,
           "exhaustive": False,
           "rule": "TLC enumerates every string of length <= %d over {0,1,9,s,m,w,x}; plus boundary numerals around 2^64/multiplier and random strings; each is parsed by "
                   "the real parse_duration and judged by Period.tla (grammar, exact value in base-1000 limbs whatever the length of the numerals, no panic). Structural hazards (group cycles 1..3 through the named group, lassos that only lead to a cycle, via certificate and account lists, diamonds; include "
                   "cycles 1..3, rate limits with number 0 / huge periods / periods above the uptime, overflowing periods) and field-by-field mutations of a valid "
                   "configuration are given to the real daemon with a reachable CA: the outcome (first attempt done | error exit with message | crash | hang) is "
                   "judged by the specification. Every single field mutation and the pairs (delete one field, mutate another field of the same table; quick: all pairs ending in a deletion / empty list / empty string, half of the others) "
                   "go through the real loader by the config-dump probe. Groups.tla enumerates every graph of 3 groups and 2 hooks with bodies of at most one name (exhaustive) and of at most two "
                   "names (sampled), cyclic or not; each is loaded by the real MainEventLoop::new through the certificate's or the account's hook list." % maxlen}
    return {"coverage": cov, "assumptions": [
        "byte-level TOML fuzzing is out of scope of the technique (DESIGN.md C19); field-level mutations are a catalogue, not a proof",
        "values of numerals longer than 5 digits exceed TLC's integers: for those only accept/reject-by-grammar and crash-freedom are judged",
        "the check runs the debug feature build, whose arithmetic overflow checks turn silent wrap-arounds of the release build into panics"]}
