"""C18 - ACME requests go only to endpoints whose TLS certificate is trusted."""
import json, os, random
import tlc, flows, flowcheck, vcrypto
from common import fresh_dir, ToolError, save_replay
from scenario import simple_cert

NEEDS = ["acmed"]
LABELS = ["C18_NoRequestUnlessTrusted", "C18_TrustedWorks", "C18_BadRootFileFails"]
MC_CFG = """SPECIFICATION MCSpec
CONSTANTS
  Enforce = %s
  Deviations = %s
INVARIANTS NoBad Emit
CHECK_DEADLOCK FALSE
"""
TRACE_CFG = """SPECIFICATION TSpec
CONSTANTS
  Enforce = %s
  Deviations = {}
POSTCONDITION Accepted
CHECK_DEADLOCK FALSE
"""


def material(root):
    """Private CAs, decoys and server certificates, written once per check run."""
    vc = vcrypto.shared()
    os.makedirs(root, exist_ok=True)
    m = {}
    good = vc.must("make_ca", cn="needed root")
    other = vc.must("make_ca", cn="unrelated root")
    m["good_root_pem"] = good["cert_pem"]
    good2 = vc.must("make_ca", cn="second needed root")
    m["good2_root_pem"] = good2["cert_pem"]
    for i in range(3):
        m["decoy%d" % i] = vc.must("make_ca", cn="decoy %d" % i)["cert_pem"]

    def server(name, issuer, dns, ips, not_after):
        leaf = vc.must("make_leaf", issuer_cert=issuer["cert_pem"], issuer_key=issuer["key_pem"], key_type="ecdsa_p256", dns=dns, ips=ips,
                       not_after_s=not_after, not_before_s=-7200, cn=dns[0] if dns else "srv")
        c, k = os.path.join(root, name + ".crt"), os.path.join(root, name + ".key")
        open(c, "w").write(leaf["cert_pem"])
        open(k, "w").write(leaf["key_pem"])
        return {"cert": c, "key": k}
    m["trusted"] = server("trusted", good, ["localhost"], ["127.0.0.1"], 86400)
    m["untrusted"] = server("untrusted", other, ["localhost"], ["127.0.0.1"], 86400)
    m["other_host"] = server("other_host", good, ["elsewhere.example.org"], ["192.0.2.77"], 86400)
    m["expired"] = server("expired", good, ["localhost"], ["127.0.0.1"], -3600)
    m["trusted2"] = server("trusted2", good2, ["localhost"], ["127.0.0.1"], 86400)
    return m


def spec_for(i, pt, mat, root, url_host):
    d = os.path.join(root, "f%04d" % i)
    os.makedirs(d, exist_ok=True)
    files = {}
    for k, src in enumerate(sorted(pt["conf"])):
        p = os.path.join(d, "root_%s.pem" % src)
        content = mat["good_root_pem"] if pt["holder"] == src else mat["decoy%d" % k]
        if pt["filestate"] != "ok" and pt["badsrc"] == src:
            if pt["filestate"] == "malformed":
                content = "-----BEGIN CERTIFICATE-----\nthis is not base64 at all\n-----END CERTIFICATE-----\n" if i % 2 else "no pem here\n"
                open(p, "w").write(content)
            else:
                p = os.path.join(d, "does-not-exist-%s.pem" % src)
        else:
            open(p, "w").write(content)
        files[src] = p
    ep = {"ca": {"tls": mat[pt["server"]], "host": url_host}}
    if "endpoint" in files:
        ep["root_certificates"] = [files["endpoint"]]
    g = {}
    if "global" in files:
        g["root_certificates"] = [files["global"]]
    rc = [files["cli"]] if "cli" in files else []
    sp = dict(tag="C18/s%04d" % i, certs=[simple_cert("tls%d" % i)], endpoints={"A": ep}, global_opts=g,
              steps=[("run", {"attempts": 1, "root_certs": rc})], meta={"family": "trust", "pt": pt, "url_host": url_host})
    return flowcheck.prepare(sp)


def include_specs(mat, root):
    """[global] root_certificates set in the main file and again in included files: the last file that sets the option decides (as for every
    other global option), so the list in force is one file's list.  Each run is the grid point conf = {global}; holder = global iff the list in
    force holds the root that signs the server."""
    from daemon import toml_dumps
    d = os.path.join(root, "inc")
    os.makedirs(d, exist_ok=True)
    good, decoy, decoy2 = (os.path.join(d, n) for n in ("good.pem", "decoy.pem", "decoy2.pem"))
    open(good, "w").write(mat["good_root_pem"])
    open(decoy, "w").write(mat["decoy0"])
    open(decoy2, "w").write(mat["decoy1"])
    # (what the main file, conf.d/10 and conf.d/20 set; None = not set there)
    combos = [([good], [decoy], None), ([decoy], [good], None), ([good], None, [decoy]), ([good], [decoy], [decoy2]), ([decoy], [decoy2], [good]),
              (None, [good], [decoy]), (None, [decoy], [good])]
    specs = []
    for i, (m, a, b) in enumerate(combos):
        in_force = [x for x in (m, a, b) if x is not None][-1]
        files = {"conf.d/10-site.toml": toml_dumps({"global": {"root_certificates": a}}) if a else "# nothing here\n",
                 "conf.d/20-host.toml": toml_dumps({"global": {"root_certificates": b}}) if b else "# nothing here\n"}
        host = "localhost" if i % 2 == 0 else "127.0.0.1"
        pt = {"conf": ["global"], "holder": "global" if good in in_force else "none", "server": "trusted", "badsrc": "cli", "filestate": "ok"}
        specs.append(flowcheck.prepare(dict(tag="C18/i%03d" % i, certs=[simple_cert("inc%d" % i)], endpoints={"A": {"ca": {"tls": mat["trusted"], "host": host}}},
                                            global_opts={"root_certificates": m} if m else {}, include=["conf.d/*.toml"], extra_files=files,
                                            steps=[("call", lambda s: os.makedirs(os.path.join(s.world.root, "conf.d"), exist_ok=True)), ("run", {"attempts": 1})],
                                            meta={"family": "global list overridden by included files", "pt": pt, "url_host": host,
                                                  "set_in": {"main": bool(m), "10-site": bool(a), "20-host": bool(b)}})))
    return specs


def odd_name_specs(mat, root):
    """Root files whose NAMES contain characters that mean something to a shell or a glob (`[ ] ? *`): a name is a name - the file
    given is the file used, not a neighbour whose name the given one would match as a pattern."""
    specs = []
    for k, (given, neighbour) in enumerate((("root[2].pem", "root2.pem"), ("ca?.pem", "caX.pem"), ("all*.pem", "all-of-them.pem"))):
        for src in ("endpoint", "global", "cli"):
            for good_is_given in (False, True):
                d = os.path.join(root, "odd", "%d-%s-%d" % (k, src, good_is_given))
                os.makedirs(d, exist_ok=True)
                open(os.path.join(d, given), "w").write(mat["good_root_pem"] if good_is_given else mat["decoy0"])
                open(os.path.join(d, neighbour), "w").write(mat["decoy1"] if good_is_given else mat["good_root_pem"])
                path = os.path.join(d, given)
                host = "localhost" if (k + good_is_given) % 2 == 0 else "127.0.0.1"
                ep = {"ca": {"tls": mat["trusted"], "host": host}}
                g, rc = {}, []
                if src == "endpoint":
                    ep["root_certificates"] = [path]
                elif src == "global":
                    g["root_certificates"] = [path]
                else:
                    rc = [path]
                pt = {"conf": [src], "holder": src if good_is_given else "none", "server": "trusted", "badsrc": "cli", "filestate": "ok"}
                specs.append(flowcheck.prepare(dict(tag="C18/o%03d" % len(specs), certs=[simple_cert("odd%d" % len(specs))], endpoints={"A": ep}, global_opts=g,
                                                    steps=[("run", {"attempts": 1, "root_certs": rc})],
                                                    meta={"family": "root file names with pattern characters", "pt": pt, "url_host": host, "given": given, "neighbour": neighbour})))
    # variables meant for the hooks ([global] env, certificate env) name a CA bundle the way OpenSSL-based tools expect it: that is the
    # hooks' business - the daemon's own trust store stays what the three sources say
    d = os.path.join(root, "odd", "envroot")
    os.makedirs(d, exist_ok=True)
    bundle = os.path.join(d, "hook-api-ca.pem")
    open(bundle, "w").write(mat["good_root_pem"])
    for k, (where, var) in enumerate((("global", "SSL_CERT_FILE"), ("cert", "SSL_CERT_FILE"), ("global", "SSL_CERT_DIR"), ("global", "CURL_CA_BUNDLE"))):
        host = "localhost" if k % 2 == 0 else "127.0.0.1"
        val = bundle if var != "SSL_CERT_DIR" else d
        c = simple_cert("envroot%d" % k, **({"env": {var: val}} if where == "cert" else {}))
        pt = {"conf": [], "holder": "none", "server": "trusted", "badsrc": "cli", "filestate": "ok"}
        specs.append(flowcheck.prepare(dict(tag="C18/o%03d" % len(specs), certs=[c], endpoints={"A": {"ca": {"tls": mat["trusted"], "host": host}}},
                                            global_opts={"env": {var: val}} if where == "global" else {}, steps=[("run", {"attempts": 1})],
                                            meta={"family": "hook environment naming a CA bundle", "pt": pt, "url_host": host, "where": where, "var": var})))
    # the root that signs the server lies around the configuration under conventional names - next to the main file, in drop-in
    # directories, in the certificate and account directories - and is named by none of the three sources: a file that merely exists
    # is not "given"
    def litter(sc):
        base = sc.world.root
        for rel in ("root_certs.d/site.pem", "root_certificates.d/site.pem", "roots.d/site.pem", "ca.d/site.pem", "trust.d/site.pem", "conf.d/site.pem", "certs.d/site.crt",
                    "root.pem", "ca.pem", "ca-bundle.crt", "ca-certificates.crt", "roots.pem", "chain.pem", "certs/ca.pem", "accounts/ca.pem", "ssl/certs/site.pem"):
            p = os.path.join(base, rel)
            os.makedirs(os.path.dirname(p), exist_ok=True)
            if not os.path.exists(p):
                open(p, "w").write(mat["good_root_pem"])
    for k in range(2):
        host = "localhost" if k == 0 else "127.0.0.1"
        pt = {"conf": [], "holder": "none", "server": "trusted", "badsrc": "cli", "filestate": "ok"}
        specs.append(flowcheck.prepare(dict(tag="C18/o%03d" % len(specs), certs=[simple_cert("litter%d" % k)], endpoints={"A": {"ca": {"tls": mat["trusted"], "host": host}}},
                                            steps=[("call", litter), ("run", {"attempts": 1})],
                                            meta={"family": "the needed root lies around the configuration, named nowhere", "pt": pt, "url_host": host})))
    return specs


def pair_specs(mat, root):
    """Two endpoints in ONE daemon, each with its own endpoint-level root: trust must not leak from one endpoint to the other.
    Each endpoint is a point of the specification's grid of its own (conf = {endpoint})."""
    specs = []
    d = os.path.join(root, "pairs")
    os.makedirs(d, exist_ok=True)
    r1, r2 = os.path.join(d, "root1.pem"), os.path.join(d, "root2.pem")
    open(r1, "w").write(mat["good_root_pem"])
    open(r2, "w").write(mat["good2_root_pem"])
    # (root file of A, server of A, root file of B, server of B): holder of a point = "endpoint" iff the endpoint's file signs its server
    combos = [("both right", r1, "trusted", r2, "trusted2"), ("crossed", r1, "trusted2", r2, "trusted"),
              ("A right, B shows A's chain without any root", r1, "trusted", None, "trusted"),
              ("A without root, B right", None, "trusted2", r2, "trusted2")]
    for i, (name, ra, sa, rb, sb) in enumerate(combos):
        for host in ("localhost", "127.0.0.1"):
            eps, pts = {}, {}
            for ep, rf, srv in (("A", ra, sa), ("B", rb, sb)):
                e = {"ca": {"tls": mat[srv], "host": host}}
                signer = r1 if srv == "trusted" else r2
                if rf:
                    e["root_certificates"] = [rf]
                eps[ep] = e
                pts[ep] = {"conf": ["endpoint"] if rf else [], "holder": "endpoint" if (rf and rf == signer) else "none", "server": "trusted",
                           "badsrc": "cli", "filestate": "ok"}
            certs = [simple_cert("pa%d" % len(specs), endpoint="A"), simple_cert("pb%d" % len(specs), endpoint="B")]
            specs.append(flowcheck.prepare(dict(tag="C18/p%03d" % len(specs), certs=certs, endpoints=eps, steps=[("run", {"attempts": 1})],
                                                meta={"family": "two endpoints", "name": name, "pts": pts, "url_host": host})))
    return specs


def run(ctx):
    r = tlc.model_check("Trust", MC_CFG % (tlc.tla_set(LABELS), "{}"), "C18_mc", workers=4, timeout=600, required_actions=["MCNext"])
    if r["violated"]:
        raise ToolError("Trust: model inconsistent (%s)" % r["out_path"])
    for d in ("NoVerification", "IgnoreBadRootFile"):
        rd = tlc.model_check("Trust", MC_CFG % (tlc.tla_set(LABELS), '{"%s"}' % d), "C18_dev", workers=2, timeout=600)
        if not rd["violated"]:
            raise ToolError("Trust model sanity: deviation %s not caught" % d)
    pts = tlc.replays(r["raw"])
    root = fresh_dir("C18", "material")
    mat = material(root)
    run_pts = pts if ctx.tier == "thorough" else [p for i, p in enumerate(pts) if (i + ctx.seed) % 3 == 0 or (p["server"] == "trusted" and p["holder"] != "none" and p["filestate"] == "ok")]
    specs = [spec_for(i, pt, mat, root, "localhost" if i % 2 == 0 else "127.0.0.1") for i, pt in enumerate(run_pts)]
    results = flows.run_many(specs + include_specs(mat, root) + odd_name_specs(mat, root), workers=12)
    presults = flows.run_many(pair_specs(mat, root), workers=8)
    lines = []
    owners = []
    for x in presults:
        for ep, pt in sorted(x["meta"]["pts"].items()):
            cid = [c for c, _ in x["meta"]["flow"].items() if c.startswith("p%s" % ep.lower())][0]
            reqs = sum(1 for e in x["events"] if e.get("src") == "ca" and e.get("ev") == "CaReq" and e.get("ep") == ep)
            succ = any(e.get("ev") == "AttemptEnd" and e.get("is_success") and e.get("cert") == cid for e in x["events"])
            lines.append({"conf": pt["conf"], "holder": pt["holder"], "server": pt["server"], "badsrc": pt["badsrc"], "filestate": pt["filestate"],
                          "requests": reqs, "success": bool(succ), "handshakes_ok": 0, "handshakes_failed": 0, "pair": x["meta"]["name"], "endpoint": ep})
            owners.append(x)
    for x in results:
        if any(y["hung"] for y in x["runs"]):
            raise ToolError("daemon hung for %s" % x["meta"]["pt"])
        owners.append(x)
        pt = x["meta"]["pt"]
        reqs = sum(1 for e in x["events"] if e.get("src") == "ca" and e.get("ev") == "CaReq")
        succ = any(e.get("ev") == "AttemptEnd" and e.get("is_success") for e in x["events"])
        hs = [e.get("ok") for e in x["events"] if e.get("ev") == "CaTls"]
        lines.append({"conf": sorted(pt["conf"]), "holder": pt["holder"], "server": pt["server"], "badsrc": pt["badsrc"], "filestate": pt["filestate"],
                      "requests": reqs, "success": bool(succ), "handshakes_ok": sum(1 for h in hs if h), "handshakes_failed": sum(1 for h in hs if not h)})
    path = os.path.join(root, "trust.ndjson")
    open(path, "w").write("".join(json.dumps(e) + "\n" for e in lines))
    tv = tlc.validate_trace("Trace_Trust", TRACE_CFG % tlc.tla_set(LABELS), "C18_tv", path, timeout=900)
    if tv["hard_errors"] or tv["unmatched"] is not None:
        raise ToolError("TLC failed on the trust trace: %s %s (%s)" % (tv["hard_errors"][:2], tv["unmatched"], tv["out_path"]))
    for ln, labs in tv["bad"][:20]:
        x = owners[ln - 1]
        rp = save_replay("C18", os.path.basename(x["tag"]), {"point.json": lines[ln - 1], "trace.ndjson": os.path.join(x["world"], "trace.ndjson"),
                                                            "acmed.toml": os.path.join(x["world"], "acmed.toml"), "stderr.txt": x["runs"][0]["stderr_tail"]})
        ctx.verdict.violation("%s at %s" % (labs, lines[ln - 1]), rp)
    trusted = sum(1 for e in lines if e["success"])
    cov = {"states": r["distinct"], "transitions": r["generated"], "traces_validated_against_impl": len(lines),
           "samples": [lines[0], lines[len(lines) // 2], lines[-1]], "grid_points_in_model": len(pts), "grid_points_run": len(results),
           "two_endpoint_runs": len(presults),
           "runs_with_requests": sum(1 for e in lines if e["requests"] > 0), "runs_issuing": trusted,
           "tls_handshakes_refused_by_the_daemon": sum(e["handshakes_failed"] for e in lines), "exhaustive": ctx.tier == "thorough",
           "rule": "TLC enumerates configured sources (8 subsets of --root-cert / endpoint / global) x which source holds the needed root x server certificate "
                   "(trusted chain, untrusted chain, other host name, expired) x one configured file unreadable or malformed; each point is run against a TLS-wrapped "
                   "mock CA with private roots (URL host alternately localhost and 127.0.0.1); requests that reach the CA and issuance are judged by Trust.tla; plus root files whose names contain glob characters next to a neighbour the name would match as a pattern (18 arrangements); plus the global list set in the main file and overridden by included files (7 arrangements: the last file that sets it decides); plus daemons with two endpoints that have different endpoint-level roots (right, crossed, missing): each endpoint is judged as a grid point of its own, so trust must not leak between endpoints of one process"}
    return {"coverage": cov, "assumptions": ["the system trust store does not contain the harness's private roots",
                                            "a request 'reaches the server' when the mock CA logs a decrypted HTTP request after a completed handshake"]}
