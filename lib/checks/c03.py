"""C03 - the installed certificate/key pair stays consistent across any attempt."""
import flows, flowcheck
from common import ToolError
from scenario import simple_cert

NEEDS = ["acmed"]


def run(ctx):
    mc = flowcheck.model_check("C03", ctx.tier)
    cert = simple_cert("c1", ids=[{"dns": "a.example.org", "challenge": "http-01"}, {"dns": "b.example.org", "challenge": "dns-01"}])
    pos, _ = flows.baseline_positions("C03/base", [flowcheck.prepare(dict(certs=[cert]))["certs"][0]])
    specs = flows.single_fault_specs("C03", cert, pos, ctx.tier, ctx.seed, attempts=1, quick_stride=6, dense_kinds=("finalize", "order", "cert"))
    # a failed attempt followed by a fault-free one IN THE SAME PROCESS: whatever the first left in memory (a key pair generated for a
    # request that did not complete), the second must end with a matching pair
    late = [p for p in pos if p[0] in ("finalize", "order", "cert")]
    specs += flows.single_fault_specs("C03r", cert, late, ctx.tier, ctx.seed + 1, attempts=2, quick_stride=3)
    specs += flowcheck.prestate_specs("C03")
    specs += flowcheck.shorter_lived_specs("C03")
    specs += flows.multi_fault_specs("C03", cert, pos, 400 if ctx.tier == "thorough" else 40, ctx.seed)
    results = flows.run_many(specs, workers=12)
    hung = [r["meta"] for r in results if any(x["hung"] for x in r["runs"])]
    bad, stats, path = flowcheck.validate("C03/tv", results, flowcheck.L03)
    flowcheck.report(ctx, "C03", results, bad)
    fb, fstats, _ = flowcheck.validate("C03/fid", results, flowcheck.ALL)
    pairs = {(r["meta"].get("kind"), r["meta"].get("fault")) for r in results if r["meta"]["family"] == "single fault"}
    postops = sum(1 for r in results for e in r["events"] if e.get("src") == "hook" and e.get("hook") == "post-operation" and e.get("phase") == "end")
    succ = sum(1 for r in results for e in r["events"] if e.get("ev") == "AttemptEnd" and e.get("is_success"))
    cov = {"states": mc["states"], "transitions": mc["transitions"], "traces_validated_against_impl": len(results),
           "samples": [{k: v for k, v in r["meta"].items() if k != "flow"} for r in results[:2] + results[-2:]],
           "model": mc, "trace_validation": stats, "position_fault_pairs": len(pairs), "positions": pos,
           "attempt_ends_observed": postops, "successful_attempts": succ, "scenarios_cut_by_timeout": hung,
           "model_fidelity": {"all_labels_clean": not fb, "bad": [({k: v for k, v in results[i]["meta"].items() if k != "flow"}, l) for i, l, _ in fb[:5]]},
           "exhaustive": False,
           "rule": "every request position of a two-identifier issuance x the fault catalogue (24 ACME error types, unknown/absent type, "
                   "non-JSON bodies, dropped connections, missing headers/fields, invalid object statuses, non-PEM/truncated/empty certificate) "
                   "x {no pair, matching pair on disk} x kp_reuse; quick = rotating 1/6 sample plus, for the steps from the order poll to the download (where the key pair is in play), every ACME error type in every pre/kp_reuse cell answered once; thorough = all, ACME errors answered once and repeatedly; plus, for faults from finalize on, a second fault-free attempt in the same process; plus random multi-fault runs over 3 attempts"}
    return {"coverage": cov, "assumptions": [
        "the pair is observed by the post-operation hook (file contents copied into the trace) and parsed by OpenSSL through vcrypto",
        "a pair that was already inconsistent before the attempt is not the attempt's fault (C03_PairOK is conditional on the start state)"]}
