"""C06 - renewal happens exactly when due: never late, never in a loop."""
import concurrent.futures as cf, json, os, random, shutil
import tlc, vcrypto, flows, flowcheck
from common import fresh_dir, ToolError, save_replay
from daemon import probe, toml_dumps
from scenario import simple_cert

NEEDS = ["acmed"]
LABELS = ["C06_ImmediateWhenMissing", "C06_NeverLate", "C06_NotTooEarly", "C06_NeverNegative", "C06_NoLoop", "C06_Jitter"]
UNIT, SLACK, SAMPLES = 1000, 30, 32
RELS = ["equal", "permuted", "superset", "missing_one", "disjoint", "wildcard_vs_base", "base_vs_wildcard", "idn", "ipv4", "ipv6_alt", "mixed_case"]

MC_CFG = """SPECIFICATION MCSpec
CONSTANTS
  Enforce = %(enforce)s
  Deviations = %(dev)s
  Es <- MCEs
  Ds = {0, 5, 10, 200}
  Js = {0, 1, 3, 50}
  Rels = %(rels)s
  Files = {"both", "no_key", "no_cert"}
  Unit = %(unit)d
  Slack = %(slack)d
INVARIANTS NoBad Emit
CHECK_DEADLOCK FALSE
"""
TRACE_CFG = """SPECIFICATION TSpec
CONSTANTS
  Enforce = %s
  Deviations = {}
  Es = {}
  Ds = {}
  Js = {}
  Rels = {}
  Files = {}
  Unit = %d
  Slack = %d
POSTCONDITION Accepted
CHECK_DEADLOCK FALSE
"""


def names_for(rel):
    """(configured identifiers as written in the TOML, SAN of the certificate on disk)"""
    a, b, c = "alpha.example.org", "beta.example.org", "gamma.example.org"
    if rel == "equal":
        return [("dns", a), ("dns", b)], ([a, b], [])
    if rel == "permuted":
        return [("dns", a), ("dns", b), ("dns", c)], ([c, a, b], [])
    if rel == "superset":
        return [("dns", a)], ([b, a, c], ["192.0.2.1"])
    if rel == "missing_one":
        return [("dns", a), ("dns", b)], ([a], [])
    if rel == "disjoint":
        return [("dns", a)], ([b], [])
    if rel == "wildcard_vs_base":
        return [("dns", "*." + a)], ([a], [])
    if rel == "base_vs_wildcard":
        return [("dns", a)], (["*." + a], [])
    if rel == "idn":
        return [("dns", "bücher.example.org"), ("dns", a)], (["xn--bcher-kva.example.org", a], [])
    if rel == "ipv4":
        return [("ip", "203.0.113.9"), ("dns", a)], ([a], ["203.0.113.9"])
    if rel == "ipv6_alt":
        return [("ip", "2001:0DB8:0000:0000:0000:0000:0000:0001"), ("dns", a)], ([a], ["2001:db8::1"])
    if rel == "mixed_case":
        return [("dns", "Alpha.Example.ORG")], ([a], [])
    raise ValueError(rel)


FAR_CFG = """SPECIFICATION MCSpec
CONSTANTS
  Enforce = %(enforce)s
  Deviations = {}
  Es <- MCEsFar
  Ds = {0, 2592, 5000000}
  Js = {0, 86400}
  Rels = {"equal", "missing_one"}
  Files = {"both"}
  Unit = 1
  Slack = 1
INVARIANTS NoBad Emit
CHECK_DEADLOCK FALSE
"""


def run_state(args):
    idx, st, root = args
    scale = st.get("scale", 1)      # the far grid is in kiloseconds: seconds there exceed TLC's 32-bit integers
    st = dict(st, e=int(st["e"]) * scale, d=int(st["d"]) * scale, j=int(st["j"]) * scale)
    vc = vcrypto.shared()
    d = os.path.join(root, "g%05d" % idx)
    shutil.rmtree(d, ignore_errors=True)
    os.makedirs(os.path.join(d, "certs"))
    os.makedirs(os.path.join(d, "accounts"))
    ids, (san_dns, san_ip) = names_for(st["rel"])
    ca = vc.must("make_ca", cn="sched CA")
    leaf = vc.must("make_leaf", issuer_cert=ca["cert_pem"], issuer_key=ca["key_pem"], key_type="ecdsa_p256", dns=san_dns, ips=san_ip,
                   not_after_s=int(st["e"]), not_before_s=min(-3600, int(st["e"]) - 3600))
    base = os.path.join(d, "certs", "sched_ecdsa-p256")
    # every third point reaches its files through symbolic links (a `live/` layout, configuration management): present is present
    linked = idx % 3 == 1
    os.makedirs(os.path.join(d, "store"))

    def put(path, text):
        if linked:
            real = os.path.join(d, "store", os.path.basename(path))
            open(real, "w").write(text)
            os.symlink(real if idx % 2 else os.path.join("..", "store", os.path.basename(path)), path)
        else:
            open(path, "w").write(text)
    if st["files"] != "no_key":
        put(base + ".pk.pem", leaf["key_pem"])
    if st["files"] != "no_cert":
        # the file is the chain the CA served: every other point also holds the issuer's certificate, which ends EARLIER than the
        # end-entity certificate (an intermediate in its last hour, or one that ended an hour ago): "notAfter" is the certificate's own
        chain = leaf["cert_pem"]
        if idx % 2 == 0:
            short = vc.must("make_ca", cn="sched CA, ending", not_after_s=3600 if idx % 4 == 0 else -3600, not_before_s=-7200)
            chain += short["cert_pem"]
        put(base + ".crt.pem", chain)
    cfg = {"global": {"accounts_directory": os.path.join(d, "accounts"), "certificates_directory": os.path.join(d, "certs")},
           "endpoint": [{"name": "E", "url": "http://127.0.0.1:9/dir", "tos_agreed": True}],
           "account": [{"name": "a", "contacts": [{"mailto": "a@example.org"}]}],
           "certificate": [{"name": "sched", "account": "a", "endpoint": "E", "key_type": "ecdsa_p256", "hooks": [],
                            "identifiers": [{k: v, "challenge": "http-01"} for k, v in ids]}]}
    # the two periods are given at the certificate, the endpoint or the global level in turn, and - fourth way - at the endpoint with
    # OTHER values at the global level (the more specific level is the one in force)
    opts = {"renew_delay": "%ds" % st["d"], "random_early_renew": "%ds" % st["j"]}
    where = idx % 4
    if where == 0:
        cfg["certificate"][0].update(opts)
    elif where == 1:
        cfg["endpoint"][0].update(opts)
    elif where == 2:
        cfg["global"].update(opts)
    else:
        cfg["endpoint"][0].update(opts)
        cfg["global"].update({"renew_delay": "%ds" % (st["d"] + 7 * scale * UNIT), "random_early_renew": "%ds" % (st["j"] + 3 * scale * UNIT)})
    conf = os.path.join(d, "acmed.toml")
    open(conf, "w").write(toml_dumps(cfg))
    r = probe("schedule", {"config": conf, "samples": SAMPLES})
    if r.get("crashed") and r.get("panic"):
        # a panic in the code under test is an outcome, not a tool error: reported as a waiting time of -1
        shutil.rmtree(d, ignore_errors=True)
        return idx, {"e": int(st["e"]) // scale, "d": int(st["d"]) // scale, "j": int(st["j"]) // scale, "rel": st["rel"], "files": st["files"],
                     "samples": [-1], "panic": r["panic"][:300]}, None
    if not r.get("ok"):
        return idx, None, "probe: %s" % r
    res = r["results"].get("sched_ecdsa-p256")
    if res is None or not all(x.get("ok") for x in res):
        return idx, None, "schedule_renewal returned an error: %s" % str(res)[:300]
    shutil.rmtree(d, ignore_errors=True)
    return idx, {"e": int(st["e"]) // scale, "d": int(st["d"]) // scale, "j": int(st["j"]) // scale, "rel": st["rel"], "files": st["files"],
                 "samples": [min(int(x["s"]) // scale, 2 * 10 ** 9) for x in res]}, None


def run(ctx):
    p = dict(enforce=tlc.tla_set(LABELS), dev="{}", rels=tlc.tla_set(RELS), unit=UNIT, slack=SLACK)
    r = tlc.model_check("Schedule", MC_CFG % p, "C06_mc", workers=8, timeout=900, required_actions=["MCEval"])
    if r["violated"]:
        raise ToolError("Schedule: the documented formula violates the guards: %s (%s)" % (r["violated"], r["out_path"]))
    rd = tlc.model_check("Schedule", MC_CFG % dict(p, dev='{"JitterAdded"}'), "C06_dev", workers=4, timeout=600)
    if not rd["violated"]:
        raise ToolError("Schedule model sanity: adding the jitter instead of subtracting it is not caught")
    seen, grid = set(), []
    for b in tlc.replays(r["raw"]):
        k = json.dumps(b, sort_keys=True)
        if k not in seen:
            seen.add(k)
            grid.append(b)
    run_grid = grid if ctx.tier == "thorough" else [g for i, g in enumerate(grid) if (i + ctx.seed) % 4 == 0]
    root = fresh_dir("C06", "grid")
    lines, errs = [], []
    with cf.ThreadPoolExecutor(max_workers=12) as ex:
        for idx, ev, err in ex.map(run_state, [(i, g, root) for i, g in enumerate(run_grid)]):
            if err:
                errs.append((idx, err))
            else:
                lines.append((idx, ev))
    if errs:
        raise ToolError("schedule probe failed for %d grid states, e.g. %s: %s" % (len(errs), run_grid[errs[0][0]], errs[0][1]))
    path = os.path.join(root, "schedule.ndjson")
    with open(path, "w") as f:
        for _, e in lines:
            f.write(json.dumps(e) + "\n")
    tv = tlc.validate_trace("Trace_Schedule", TRACE_CFG % (tlc.tla_set(LABELS), UNIT, SLACK), "C06_tv", path, timeout=1200)
    if tv["hard_errors"] or tv["unmatched"] is not None:
        raise ToolError("TLC failed on the schedule trace: %s %s (%s)" % (tv["hard_errors"][:2], tv["unmatched"], tv["out_path"]))
    for ln, labs in tv["bad"][:20]:
        idx, ev = lines[ln - 1]
        rp = save_replay("C06", "grid%05d" % idx, {"state.json": run_grid[idx], "observed.json": ev, "violated.json": labs})
        ctx.verdict.violation("grid state %s: %s, waiting times %s..." % (run_grid[idx], labs, ev["samples"][:6]), rp)
    # far past / far future: notAfter up to the year 9999 and back to 1925, in kiloseconds (Unit = 1, Slack = 1 ks)
    rf = tlc.model_check("Schedule", FAR_CFG % p, "C06_mc_far", workers=4, timeout=600, required_actions=["MCEval"])
    if rf["violated"]:
        raise ToolError("Schedule (far grid): the documented formula violates the guards: %s (%s)" % (rf["violated"], rf["out_path"]))
    seenf, far = set(), []
    for b in tlc.replays(rf["raw"]):
        k = json.dumps(b, sort_keys=True)
        if k not in seenf:
            seenf.add(k)
            far.append(dict(b, scale=1000))
    flines = []
    with cf.ThreadPoolExecutor(max_workers=12) as ex:
        for idx, ev, err in ex.map(run_state, [(i, g, os.path.join(root, "far")) for i, g in enumerate(far)]):
            if err:
                raise ToolError("schedule probe failed for far grid state %s: %s" % (far[idx], err))
            flines.append((idx, ev))
    fpath = os.path.join(root, "far.ndjson")
    with open(fpath, "w") as f:
        for _, e in flines:
            f.write(json.dumps({k: v for k, v in e.items() if k != "panic"}) + "\n")
    ftv = tlc.validate_trace("Trace_Schedule", TRACE_CFG % (tlc.tla_set(LABELS), 1, 1), "C06_ftv", fpath, timeout=600)
    if ftv["hard_errors"] or ftv["unmatched"] is not None:
        raise ToolError("TLC failed on the far schedule trace: %s %s (%s)" % (ftv["hard_errors"][:2], ftv["unmatched"], ftv["out_path"]))
    for ln, labs in ftv["bad"][:20]:
        idx, ev = flines[ln - 1]
        rp = save_replay("C06", "far%05d" % idx, {"state.json": far[idx], "observed.json": ev, "violated.json": labs})
        ctx.verdict.violation("far grid state (kiloseconds) %s: %s, waiting times %s... %s" % (far[idx], labs, ev["samples"][:4], ev.get("panic", "")), rp)
    # daemon level: after a successful issuance the next evaluation must not be immediate
    specs = []
    for life, delay in ((90 * 86400, "30d"), (7 * 86400, "1d"), (3600, "10m"), (86400, "2d")):
        c = simple_cert("life%d" % life, renew_delay=delay)
        specs.append(flowcheck.prepare(dict(tag="C06/d%d" % len(specs), certs=[c], attempts=3, endpoints={"A": {"ca": {"cert_lifetime_s": life}}},
                                            meta={"family": "issue then evaluate", "lifetime_s": life, "renew_delay": delay})))
    results = flows.run_many(specs, workers=4)
    dl = []
    for x in results:
        life = x["meta"]["lifetime_s"]
        dsec = {"30d": 30 * 86400, "1d": 86400, "10m": 600, "2d": 2 * 86400}[x["meta"]["renew_delay"]]
        sched = [e["ms"] // 1000 for e in x["events"] if e.get("ev") == "Scheduled"]
        for s in sched[1:]:
            dl.append({"e": life, "d": dsec, "j": 0, "rel": "equal", "files": "both", "samples": [min(s, 2 * 10 ** 9)]})
    dpath = os.path.join(root, "daemon.ndjson")
    open(dpath, "w").write("".join(json.dumps(e) + "\n" for e in dl))
    dtv = tlc.validate_trace("Trace_Schedule", TRACE_CFG % (tlc.tla_set(LABELS), UNIT, SLACK), "C06_dtv", dpath, timeout=600)
    for ln, labs in dtv["bad"][:5]:
        rp = save_replay("C06", "daemon%d" % ln, {"observed.json": dl[ln - 1], "violated.json": labs})
        ctx.verdict.violation("after an issuance the daemon scheduled %s for lifetime/delay %s/%s: %s" % (dl[ln - 1]["samples"], dl[ln - 1]["e"], dl[ln - 1]["d"], labs), rp)
    cov = {"states": r["distinct"], "transitions": r["generated"], "traces_validated_against_impl": len(lines) + len(dl),
           "samples": [lines[0][1], lines[len(lines) // 2][1], lines[-1][1]], "grid_states_in_model": len(grid), "grid_states_replayed": len(lines), "far_grid_states_replayed": len(flines),
           "evaluations_per_state": SAMPLES, "daemon_evaluations_after_issuance": len(dl), "unit_s": UNIT, "slack_s": SLACK,
           "exhaustive": ctx.tier == "thorough",
           "rule": "TLC enumerates notAfter-now x renew_delay x random_early_renew x SAN relation x file presence; for each grid state a real certificate "
                   "is made with OpenSSL and the real schedule_renewal is called 32 times; every waiting time is judged by Schedule.tla (quick: every 4th state)"}
    return {"coverage": cov, "assumptions": ["one grid unit is 1000 s, the slack for the seconds between creating the certificate and evaluating it is 30 s",
                                            "jitter is judged by 'not all 32 samples equal' when random_early_renew >= 1000 s"]}
