"""C09 - configured HTTP rate limits are never exceeded on any path."""
import concurrent.futures as cf, json, os, random
import tlc, flows, flowcheck
from common import fresh_dir, ToolError, save_replay
from daemon import probe
from scenario import simple_cert

NEEDS = ["acmed"]
LABELS = ["C09_Window", "C09_NoStarvation", "C09_ThroughLimiter", "C09_SentWhenAdmitted"]
U = 100000      # ns per trace unit (100 microseconds)

MC_CFG = """SPECIFICATION SSpec
CONSTANTS
  Enforce = {"C09_Window","C09_NoStarvation"}
  Deviations = %s
  Limits <- %s
  MaxLimitP = %d
INVARIANTS TypeOK C09_WindowInv
PROPERTY C09_NoStarvation
CHECK_DEADLOCK FALSE
"""
TRACE_CFG = """SPECIFICATION TSpec
CONSTANTS
  Enforce = %s
POSTCONDITION Accepted
CHECK_DEADLOCK FALSE
"""


def model():
    st = tr = 0
    for L, mp in (("L1", 3), ("L2", 7), ("L3", 9), ("L4", 4), ("L5", 5)):
        r = tlc.model_check("MC_RateLimit", MC_CFG % ("{}", L, mp), "C09_mc", workers=4, timeout=900, required_actions=["SCall", "SAdmit", "STick"])
        if r["violated"] or r["vacuous_actions"]:
            raise ToolError("RateLimit model: %s %s (%s)" % (r["violated"], r["vacuous_actions"], r["out_path"]))
        st += r["distinct"]
        tr += r["generated"]
    rd = tlc.model_check("MC_RateLimit", MC_CFG % ('{"PruneWithShortest"}', "L3", 9), "C09_dev", workers=4, timeout=600)
    if "C09_WindowInv" not in rd["violated"]:
        raise ToolError("RateLimit model sanity: pruning with the shortest period is not caught")
    rd = tlc.model_check("MC_RateLimit", MC_CFG % ('{"PruneByLargestCount"}', "L5", 5), "C09_dev2", workers=4, timeout=600)
    if "C09_WindowInv" not in rd["violated"]:
        raise ToolError("RateLimit model sanity: pruning by the period of the largest count is not caught")
    return {"states": st, "transitions": tr, "limit_sets": ["2/3", "1/2+3/7", "2/2+3/5+4/9", "1/4", "3/2+2/5"], "liveness_checked": True}


def patterns(rng, tier):
    pats = []
    # including sets in which the larger count does NOT belong to the longer period
    lim_sets = [[(3, 1)], [(1, 1)], [(5, 2)], [(2, 1), (5, 3)], [(4, 1), (6, 2), (9, 3)], [(10, 1)], [(20, 2)], [(2, 2), (3, 3)],
                [(5, 1), (2, 3)], [(6, 1), (4, 2), (3, 3)], [(3, 2), (2, 3)],
                # three limits of which the SHORTEST period is the tightest, so that it is the one deciding while the log still holds
                # entries older than the middle period
                [(1, 1), (4, 2), (8, 3)], [(12, 3), (2, 1), (6, 2)],
                # limits that share a period (also spelled differently in a configuration): every one of them holds, the strictest decides
                [(2, 2), (8, 2)], [(8, 1), (2, 1)], [(6, 3), (2, 1), (8, 1)],
                # a burst limit beside a long-term limit that is the tighter one for traffic spaced a little more than the short period apart
                # (polls 5 s apart, retries 1 s apart): the endpoint looks idle to the short limit while the long one is full
                [(2, 1), (3, 6)], [(3, 1), (2, 4)], [(3, 6), (1, 1), (2, 3)]]
    if tier == "thorough":
        lim_sets += [[(1, 10)], [(3, 5), (7, 10)], [(20, 10)], [(5, 4), (8, 7), (12, 10)], [(15, 3)], [(2, 6)], [(10, 2), (3, 10)], [(8, 3), (5, 6), (2, 9)]]
    for ls in lim_sets:
        nmax = max(n for n, _ in ls)
        pmax = max(p for _, p in ls)
        total = min(3 * nmax + 2, 40)
        kinds = {"burst": [0] * total, "burst after idle": [0] * nmax + [int(pmax * 1200)] + [0] * nmax,
                 "steady": [int(1000 * min(p for _, p in ls) / max(1, min(n for n, _ in ls)) * 0.5)] * min(total, 14),
                 "random": [rng.choice([0, 0, 30, 150, 400, int(pmax * 600)]) for _ in range(min(total, 16))]}
        if len({p for _, p in ls}) > 1:
            pmin = min(p for _, p in ls)
            kinds["spaced beyond the shortest period"] = [int(pmin * 1200)] * min(total, nmax + 4)
        for k, gaps in kinds.items():
            # keep each probe run below ~25 s (quick) / 120 s (thorough)
            budget = (25 if tier != "thorough" else 120)
            est = pmax * (len(gaps) / max(1, min(n for n, _ in ls))) + sum(gaps) / 1000.0
            if est > budget:
                gaps = gaps[: max(nmax + 2, int(len(gaps) * budget / est))]
            pats.append({"limits": ls, "kind": k, "gaps": gaps})
    return pats


def run_probe(p):
    inp = {"limits": [[n, "%ds" % per] for n, per in p["limits"]], "calls": p["gaps"], "call_timeout_ms": 1000 * (max(per for _, per in p["limits"]) * 3 + 10)}
    r = probe("ratelimit", inp, timeout=600)
    return p, r


def run(ctx):
    rng = random.Random(ctx.seed)
    mc = model()
    pats = patterns(rng, ctx.tier)
    lines, owner = [], []
    with cf.ThreadPoolExecutor(max_workers=16) as ex:
        outs = list(ex.map(run_probe, pats))
    ncalls = 0
    for i, (p, r) in enumerate(outs):
        if not r.get("ok"):
            raise ToolError("ratelimit probe failed: %s" % r)
        pmax = max(per for _, per in p["limits"])
        lines.append({"e": "Reset", "limits": [{"n": n, "p": per * 1000000000 // U} for n, per in p["limits"]],
                      "bound": (pmax + 1) * 1000000000 // U})
        owner.append(i)
        for c in r["calls"]:
            ncalls += 1
            if c["timed_out"] or c.get("pushed_ns") is None:
                lines.append({"e": "Starved"})
            else:
                lines.append({"e": "Admit", "call": c["call_ns"] // U, "t": c["pushed_ns"] // U, "ret": c["ret_ns"] // U, "judge_wait": True})
            owner.append(i)
    # daemon level: every request of an endpoint passes its limiter; the limiter is shared by the certificates of the endpoint
    specs = []
    # (a CA that gives no nonce with its directory makes the first POST of every attempt fetch one: GET newNonce and POST in a row)
    for n_certs, lim, nog in ((1, [(4, 1)], True), (3, [(5, 1)], False), (2, [(3, 1), (8, 2)], True), (2, [(6, 1), (3, 2)], False), (1, [(1, 1)], False), (2, [(2, 1)], False)):
        rls = [{"name": "rl%d" % k, "number": n, "period": "%ds" % p} for k, (n, p) in enumerate(lim)]
        certs = [simple_cert("rl%d" % j) for j in range(n_certs)]
        script = [{"kind": "newOrder", "nth": 1, "fault": "acme:badNonce:400", "repeat": 3}] if n_certs == 1 else []
        specs.append(flowcheck.prepare(dict(tag="C09/d%d" % len(specs), certs=certs, attempts=1, rate_limits=rls, timeout=300,
                                            endpoints={"A": {"rate_limits": [x["name"] for x in rls], "script": script, "ca": {"nonce_on_get": nog}}},
                                            meta={"family": "daemon", "certs": n_certs, "limits": lim, "nonce_with_directory": nog})))
    # requests whose answer never comes (the CA has read them: they count) followed by more traffic on the endpoint
    for n_certs, lim, script in ((3, [(2, 1)], [{"kind": "newOrder", "nth": 1, "fault": "drop_after", "repeat": 2}, {"kind": "newAccount", "nth": 1, "fault": "drop_after", "repeat": 1}]),
                                 (4, [(1, 1), (3, 4)], [{"kind": "directory", "nth": 2, "fault": "drop_after", "repeat": 2}, {"kind": "authz", "nth": 1, "fault": "drop_after", "repeat": 1}])):
        rls = [{"name": "rl%d" % k, "number": n, "period": "%ds" % p} for k, (n, p) in enumerate(lim)]
        certs = [simple_cert("rd%d" % j) for j in range(n_certs)]
        specs.append(flowcheck.prepare(dict(tag="C09/d%d" % len(specs), certs=certs, attempts=2, rate_limits=rls, timeout=300,
                                            endpoints={"A": {"rate_limits": [x["name"] for x in rls], "script": script}},
                                            meta={"family": "daemon, unanswered requests", "certs": n_certs, "limits": lim})))
    results = flows.run_many(specs, workers=3)
    base = len(outs)
    nreq = 0
    for j, x in enumerate(results):
        if any(y["hung"] for y in x["runs"]):
            ctx.verdict.violation("daemon with rate limits %s did not finish (requests withheld?)" % x["meta"]["limits"], x["world"])
        lim = x["meta"]["limits"]
        lines.append({"e": "Reset", "limits": [{"n": n, "p": p * 1000000000 // U} for n, p in lim], "bound": 0})
        owner.append(base + j)
        for e in x["events"]:
            if e.get("src") == "acmed" and e.get("ev") == "RlAdmit" and e.get("ep") == "A":
                lg = e["limiter"]["log_ns"]
                if lg:
                    t = lg[-1] // U
                    lines.append({"e": "Admit", "call": t, "t": t, "ret": t, "judge_wait": False})
                    owner.append(base + j)
            elif e.get("src") == "acmed" and e.get("ev") in ("HttpGet", "HttpPost") and e.get("ep") == "A":
                lines.append({"e": "Send"})
                owner.append(base + j)
            elif e.get("src") == "ca" and e.get("ev") == "CaReq" and e.get("ep") == "A":
                nreq += 1
                lines.append({"e": "Request"})
                owner.append(base + j)
    root = fresh_dir("C09", "tv")
    path = os.path.join(root, "ratelimit.ndjson")
    open(path, "w").write("".join(json.dumps(e) + "\n" for e in lines))
    tv = tlc.validate_trace("Trace_RateLimit", TRACE_CFG % tlc.tla_set(LABELS), "C09_tv", path, timeout=1200)
    if tv["hard_errors"] or tv["unmatched"] is not None:
        raise ToolError("TLC failed on the rate-limit trace: %s %s (%s)" % (tv["hard_errors"][:2], tv["unmatched"], tv["out_path"]))
    seen = set()
    for ln, labs in tv["bad"]:
        o = owner[ln - 1]
        if (o, tuple(labs)) in seen:
            continue
        seen.add((o, tuple(labs)))
        what = {k: v for k, v in outs[o][0].items()} if o < base else results[o - base]["meta"]
        rp = save_replay("C09", "case%03d" % o, {"case.json": {k: v for k, v in what.items() if k not in ("flow", "hook_types")}, "violated.json": {"labels": labs, "line": lines[ln - 1]},
                                                 "probe.json": outs[o][1] if o < base else {}})
        ctx.verdict.violation("%s in %s at %s" % (labs, {k: v for k, v in what.items() if k not in ("flow", "hook_types", "gaps")}, lines[ln - 1]), rp)
    cov = {"states": mc["states"], "transitions": mc["transitions"], "traces_validated_against_impl": len(outs) + len(results),
           "samples": [outs[0][0], outs[-1][0], results[-1]["meta"]["limits"]], "model": mc, "limiter_calls_judged": ncalls,
           "daemon_requests_judged": nreq, "patterns": len(outs), "exhaustive": False,
           "rule": "limit sets (1..3 limits, n in 1..20, periods 1..3 s quick / ..10 s thorough) x arrival patterns (burst, burst after idle, steady, random) driven "
                   "against the real RateLimit in real time; the window guard is evaluated on the instants the limiter pushed into its own log; daemon runs "
                   "(1..3 certificates on one endpoint, retry storm) supply through-limiter causality and the shared per-endpoint log"}
    return {"coverage": cov, "assumptions": ["no virtual clock for std::time::Instant: the limiter runs in real time with short periods",
                                            "a call must return within (longest period + 1 s) of the earliest instant at which the limits permit it"]}
