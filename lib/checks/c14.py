"""C14 - the most specific setting wins; included files merge as documented."""
import concurrent.futures as cf, json, os, random, shutil
import tlc
from common import fresh_dir, ToolError, save_replay
from daemon import probe, toml_dumps, Raw

NEEDS = ["acmed"]
LABELS = ["C14_MostSpecificWins", "C14_GlobalLastWins", "C14_ListsMerged", "C14_ReadOnce", "C14_RejectsDangling"]
MC_CFG = """SPECIFICATION MCSpec
CONSTANTS
  Enforce = %s
  Deviations = %s
  Graphs <- MCGraphs
  MaxFiles = 4
INVARIANTS NoBad Emit
CHECK_DEADLOCK FALSE
"""
TRACE_CFG = """SPECIFICATION TSpec
CONSTANTS
  Enforce = %s
  Deviations = {}
  Graphs <- MCGraphs
  MaxFiles = 4
POSTCONDITION Accepted
CHECK_DEADLOCK FALSE
"""
GLOBAL_OPTIONS = ["accounts_directory", "certificates_directory", "cert_file_mode", "cert_file_user", "cert_file_group", "cert_file_ext",
                  "pk_file_mode", "pk_file_user", "pk_file_group", "pk_file_ext", "file_name_format", "random_early_renew", "renew_delay",
                  "env", "root_certificates"]
DUR = {1: "1d", 2: "2d", 3: "3d", 4: "4d"}
DUR_S = {v: k * 86400 for k, v in DUR.items()}


def opt_value(o, i, d):
    """value of global option o in file i (distinct per file) and how it shows in the dump of certificate f1"""
    if o == "accounts_directory":
        return os.path.join(d, "acc%d" % i)
    if o == "certificates_directory":
        return os.path.join(d, "crt%d" % i)
    if o in ("cert_file_mode", "pk_file_mode"):
        return Raw("0o6%d0" % i)
    if o in ("cert_file_user", "cert_file_group", "pk_file_user", "pk_file_group"):
        return str(i)
    if o in ("cert_file_ext", "pk_file_ext"):
        return "e%d" % i
    if o == "file_name_format":
        return "fmt%d-{{ name }}.{{ file_type }}.{{ ext }}" % i
    if o in ("random_early_renew", "renew_delay"):
        return DUR[i]
    if o == "env":
        return {"VT_G": "v%d" % i}
    if o == "root_certificates":
        return ["/nonexistent/root%d.pem" % i]


def observed_setter(o, dump, d):
    c = dump["certificates"]["f1_ecdsa-p256"]
    v = {"accounts_directory": c["accounts_directory"], "certificates_directory": c["directory"], "cert_file_mode": c["cert_file_mode"],
         "cert_file_user": c["cert_file_user"], "cert_file_group": c["cert_file_group"], "cert_file_ext": c["cert_file_ext"],
         "pk_file_mode": c["pk_file_mode"], "pk_file_user": c["pk_file_user"], "pk_file_group": c["pk_file_group"], "pk_file_ext": c["pk_file_ext"],
         "file_name_format": c["file_name_format"], "random_early_renew": c["random_early_renew_s"], "renew_delay": c["renew_delay_s"],
         "env": c["env"].get("VT_G"), "root_certificates": dump["endpoints"]["E"]["root_certificates"]}[o]
    for i in range(1, 5):
        w = opt_value(o, i, d)
        if isinstance(w, Raw):
            w = int(w.s, 8)
        if o in ("random_early_renew", "renew_delay"):
            w = DUR_S[w]
        if o == "env":
            w = w["VT_G"]
        if v == w:
            return i
    return 0


def write_tree(d, g, sets, option, style):
    n = len(g)
    # "subdirs": every included file lives in a directory of its own, so that a relative path only resolves against the file that includes it
    sub = style in ("subdirs", "subdirs-glob")
    names = {i: ("main.toml" if i == 1 else ("dir%d/inc_%d.toml" % (i, i) if sub else "inc_%d.toml" % i)) for i in range(1, n + 1)}
    for i in range(1, n + 1):
        os.makedirs(os.path.dirname(os.path.join(d, names[i])), exist_ok=True)
        if sub and i > 1:
            # a decoy with the same relative name under the main file's directory must never be loaded
            pass
    for i in range(1, n + 1):
        cfg = {}
        incs = []
        for j in g[i - 1]:
            p = names[j]
            if style == "absolute" or (style == "mixed" and j % 2 == 0):
                p = os.path.join(d, p)
            elif sub:
                p = os.path.relpath(os.path.join(d, names[j]), os.path.dirname(os.path.join(d, names[i])))
            incs.append(p)
        if style == "glob" and i == 1 and incs:
            incs = ["inc_*.toml"]
        if style == "repeat-glob" and i == 1 and incs:
            # a file named by an earlier entry is matched again by a glob, and it is not the glob's last match: it is skipped, the others are not
            incs = [incs[0], "inc_*.toml"]
        if style == "subdirs-glob" and i == 1 and incs:
            incs = ["dir*/inc_*.toml"]
        if incs:
            cfg["include"] = incs
        glob = {}
        if sets[i - 1]:
            glob[option] = opt_value(option, i, d)
        if i == 1:
            if option != "accounts_directory":
                glob.setdefault("accounts_directory", os.path.join(d, "accounts"))
            if option != "certificates_directory":
                glob.setdefault("certificates_directory", os.path.join(d, "certs"))
        if glob:
            cfg["global"] = glob
        if i == 1:
            cfg["endpoint"] = [{"name": "E", "url": "http://127.0.0.1:9/dir", "tos_agreed": True}]
        cfg["hook"] = [{"name": "h%d" % i, "type": ["post-operation"], "cmd": "true"}]
        cfg["account"] = [{"name": "a%d" % i, "contacts": [{"mailto": "a%d@example.org" % i}]}]
        cfg["certificate"] = [{"name": "f%d" % i, "account": "a%d" % i, "endpoint": "E", "key_type": "ecdsa_p256", "hooks": ["h%d" % i],
                               "identifiers": [{"dns": "f%d.example.org" % i, "challenge": "http-01"}]}]
        open(os.path.join(d, names[i]), "w").write(toml_dumps(cfg))
    return os.path.join(d, "main.toml")


def do_load(args):
    idx, pt, option, style, root = args
    d = os.path.join(root, "t%05d" % idx)
    shutil.rmtree(d, ignore_errors=True)
    os.makedirs(d)
    main = write_tree(d, pt["g"], pt["sets"], option, style)
    r = probe("config-dump", {"config": main})
    ev = {"e": "Load", "g": pt["g"], "sets": pt["sets"], "gi": pt["gi"], "option": option, "style": style}
    if r.get("ok"):
        ev["loaded"] = True
        ev["observed"] = observed_setter(option, r, d)
        ev["certs"] = sorted(int(k[1:].split("_")[0]) for k in r["certificates"])
    else:
        ev["loaded"] = False
        ev["observed"] = -1
        ev["certs"] = []
        ev["error"] = str(r.get("error") or r)[:200]
    shutil.rmtree(d, ignore_errors=True)
    return idx, ev


PREC_VALUES = {"renew_delay": ("1d", "2d", "3d"), "random_early_renew": ("1d", "2d", "3d"),
               "file_name_format": ("c-{{ name }}.{{ file_type }}.{{ ext }}", "e-{{ name }}.{{ file_type }}.{{ ext }}", "g-{{ name }}.{{ file_type }}.{{ ext }}")}


def do_prec(args):
    idx, pt, root = args
    d = os.path.join(root, "p%05d" % idx)
    shutil.rmtree(d, ignore_errors=True)
    os.makedirs(d)
    s, pr = pt["setting"], pt["present"]
    glob = {"accounts_directory": os.path.join(d, "accounts"), "certificates_directory": os.path.join(d, "certs")}
    ep = {"name": "E", "url": "http://127.0.0.1:9/dir", "tos_agreed": True}
    crt = {"name": "f1", "account": "a", "endpoint": "E", "key_type": "ecdsa_p256", "hooks": [], "identifiers": [{"dns": "f1.example.org", "challenge": "http-01"}]}
    if s == "directory":
        if pr["global"]:
            glob["certificates_directory"] = os.path.join(d, "gdir")
        else:
            del glob["certificates_directory"]
        if pr["cert"]:
            crt["directory"] = os.path.join(d, "cdir")
    else:
        cv, evv, gv = PREC_VALUES[s]
        if s != "file_name_format":
            # a zero duration is a value like any other: "0s" at one level in three points out of four
            cv, evv, gv = [("1d", "2d", "3d"), ("0s", "2d", "3d"), ("1d", "0s", "3d"), ("1d", "2d", "0s")][idx % 4]
        if pr["cert"]:
            crt[s] = cv
        if pr["endpoint"]:
            ep[s] = evv
        if pr["global"]:
            glob[s] = gv
    cfg = {"global": glob, "endpoint": [ep], "account": [{"name": "a", "contacts": [{"mailto": "a@example.org"}]}], "certificate": [crt]}
    conf = os.path.join(d, "main.toml")
    open(conf, "w").write(toml_dumps(cfg))
    r = probe("config-dump", {"config": conf})
    ev = {"e": "Prec", "setting": s, "present": pr}
    if not r.get("ok"):
        ev["observed"] = "error: %s" % str(r.get("error"))[:100]
    else:
        c = r["certificates"]["f1_ecdsa-p256"]
        if s == "directory":
            v = c["directory"]
            ev["observed"] = "cert" if v.endswith("/cdir") else "global" if v.endswith("/gdir") else "default"
        elif s == "file_name_format":
            ev["observed"] = {"c": "cert", "e": "endpoint", "g": "global"}.get(c["file_name_format"][0], "default")
        else:
            v = c[s + "_s"]
            secs = {"0s": 0, "1d": 86400, "2d": 2 * 86400, "3d": 3 * 86400}
            given = {}
            for level, val in (("global", gv), ("endpoint", evv), ("cert", cv)):      # the most specific level last: it names an ambiguous value
                if pr[level]:
                    given[secs[val]] = level
            ev["observed"] = given.get(v, "default")
    shutil.rmtree(d, ignore_errors=True)
    return idx, ev


def do_ref(args):
    idx, pt, root = args
    d = os.path.join(root, "r%05d" % idx)
    shutil.rmtree(d, ignore_errors=True)
    os.makedirs(d)
    k = pt["kind"]
    cfg = {"global": {"accounts_directory": os.path.join(d, "accounts"), "certificates_directory": os.path.join(d, "certs")},
           "endpoint": [{"name": "E", "url": "http://127.0.0.1:9/dir", "tos_agreed": True, "rate_limits": ["rl"]}],
           "rate-limit": [{"name": "rl", "number": 5, "period": "1s"}],
           "hook": [{"name": "h", "type": ["post-operation"], "cmd": "true"}, {"name": "fh", "type": ["file-pre-create"], "cmd": "true"}],
           "group": [{"name": "grp", "hooks": ["h"]}],
           "account": [{"name": "a", "contacts": [{"mailto": "a@example.org"}], "hooks": ["fh"]}],
           "certificate": [{"name": "f1", "account": "a", "endpoint": "E", "key_type": "ecdsa_p256", "hooks": ["grp"],
                            "identifiers": [{"dns": "f1.example.org", "challenge": "http-01"}]}]}
    if k == "endpoint":
        cfg["certificate"][0]["endpoint"] = "nowhere"
    elif k == "account":
        cfg["certificate"][0]["account"] = "nobody"
    elif k == "hook":
        cfg["certificate"][0]["hooks"] = ["grp", "missing-hook"]
    elif k == "account-hook":
        cfg["account"][0]["hooks"] = ["missing-hook"]
    elif k == "group-member":
        cfg["group"][0]["hooks"] = ["h", "missing-member"]
    elif k == "rate-limit":
        cfg["endpoint"][0]["rate_limits"] = ["rl", "missing-limit"]
    elif k == "dup-cert":
        cfg["certificate"].append(dict(cfg["certificate"][0], identifiers=[{"dns": "other.example.org", "challenge": "http-01"}]))
    dup = dict(cfg["certificate"][0], identifiers=[{"dns": "other.example.org", "challenge": "http-01"}])
    if k == "dup-cert-include":
        # the second certificate of that id (same name, default = explicit key type) is declared by an included file
        dup.pop("key_type")
        cfg["certificate"][0]["key_type"] = "rsa2048"
        cfg["include"] = ["inc/more.toml"]
        os.makedirs(os.path.join(d, "inc"))
        open(os.path.join(d, "inc", "more.toml"), "w").write(toml_dumps({"certificate": [dup]}))
    elif k == "dup-cert-glob":
        # ... or by two sibling files matched by one pattern
        first = cfg["certificate"].pop(0)
        cfg["include"] = ["conf.d/*.toml"]
        os.makedirs(os.path.join(d, "conf.d"))
        open(os.path.join(d, "conf.d", "10-a.toml"), "w").write(toml_dumps({"certificate": [first]}))
        open(os.path.join(d, "conf.d", "20-b.toml"), "w").write(toml_dumps({"certificate": [dup]}))
    elif k == "ok-split":
        # every section in a file of its own: references resolve across files
        os.makedirs(os.path.join(d, "parts"))
        cfg["include"] = ["parts/*.toml"]
        for n, sec in enumerate(("endpoint", "rate-limit", "hook", "group", "account", "certificate")):
            open(os.path.join(d, "parts", "%02d-%s.toml" % (n, sec)), "w").write(toml_dumps({sec: cfg.pop(sec)}))
    conf = os.path.join(d, "main.toml")
    open(conf, "w").write(toml_dumps(cfg))
    r = probe("config-dump", {"config": conf})
    shutil.rmtree(d, ignore_errors=True)
    return idx, {"e": "Ref", "kind": k, "loaded": bool(r.get("ok")), "error": str(r.get("error"))[:120]}


def run(ctx):
    r = tlc.model_check("Config", MC_CFG % (tlc.tla_set(LABELS), "{}"), "C14_mc", workers=4, timeout=600, required_actions=["MCNext"])
    if r["violated"]:
        raise ToolError("Config: model inconsistent: %s (%s)" % (r["violated"], r["out_path"]))
    rd = tlc.model_check("Config", MC_CFG % (tlc.tla_set(LABELS), '{"GlobalFirstWins"}'), "C14_dev", workers=2, timeout=600)
    if not rd["violated"]:
        raise ToolError("Config model sanity: first-global-wins is not caught")
    pts = tlc.replays(r["raw"])
    root = fresh_dir("C14", "trees")
    jobs_load, jobs_prec, jobs_ref = [], [], []
    rng = random.Random(ctx.seed)
    for pt in pts:
        if pt["e"] == "Load":
            styles = ["relative", "absolute", "mixed", "subdirs"] + (["glob", "subdirs-glob", "repeat-glob"] if pt["gi"] in (1,) else [])
            for oi, o in enumerate(GLOBAL_OPTIONS):
                for si, st in enumerate(styles):
                    nested_subdirs = st == "subdirs" and pt["gi"] in (2, 7, 8) and oi % 5 == ctx.seed % 5
                    if ctx.tier != "thorough" and (oi + si + pt["gi"] + sum(pt["sets"])) % 3 != ctx.seed % 3 and not nested_subdirs and st != "repeat-glob":
                        continue
                    jobs_load.append((len(jobs_load), pt, o, st, root))
        elif pt["e"] == "Prec":
            jobs_prec.append((len(jobs_prec), pt, root))
        elif pt["e"] == "Ref":
            jobs_ref.append((len(jobs_ref), pt, root))
    lines = []
    with cf.ThreadPoolExecutor(max_workers=14) as ex:
        lines += [ev for _, ev in ex.map(do_prec, jobs_prec)]
        lines += [ev for _, ev in ex.map(do_ref, jobs_ref)]
        lines += [ev for _, ev in ex.map(do_load, jobs_load)]
    path = os.path.join(root, "config.ndjson")
    open(path, "w").write("".join(json.dumps(e) + "\n" for e in lines))
    tv = tlc.validate_trace("Trace_Config", TRACE_CFG % tlc.tla_set(LABELS), "C14_tv", path, timeout=1200)
    if tv["hard_errors"] or tv["unmatched"] is not None:
        raise ToolError("TLC failed on the config trace: %s %s (%s)" % (tv["hard_errors"][:2], tv["unmatched"], tv["out_path"]))
    seen = set()
    for ln, labs in tv["bad"]:
        ev = lines[ln - 1]
        key = (ev["e"], ev.get("option"), ev.get("setting"), ev.get("kind"), tuple(labs))
        if key in seen:
            continue
        seen.add(key)
        rp = save_replay("C14", "pt%05d" % ln, {"point.json": ev, "violated.json": labs})
        ctx.verdict.violation("%s at %s" % (labs, json.dumps(ev)[:400]), rp)
    cov = {"states": r["distinct"], "transitions": r["generated"], "traces_validated_against_impl": len(lines),
           "samples": [lines[0], lines[len(jobs_prec)], lines[-1]], "domain_points_in_model": len(pts),
           "precedence_points": len(jobs_prec), "reference_points": len(jobs_ref), "include_trees_loaded": len(jobs_load),
           "global_options": GLOBAL_OPTIONS, "exhaustive": ctx.tier == "thorough",
           "rule": "TLC enumerates all 2^3 presence patterns of each 3-level setting, 10 include graphs (shared, repeated, cyclic, self-including, depth 3, diamond) x "
                   "every pattern of which files set a global option, and each kind of dangling reference; each point becomes a TOML tree (for each of the 15 "
                   "global options, with relative/absolute/mixed/glob include paths, files in one directory or each in its own) loaded by the real MainEventLoop::new; the effective values are compared "
                   "with the specification's (quick: one third of option x path-style combinations)"}
    return {"coverage": cov, "assumptions": ["the effective values are read from the probe's dump of the constructed Certificate/Endpoint/Account objects"]}
