"""selftest - is every trace specification really bound to what was recorded?

For each layer the last recorded trace validation (work/calls/<tag>.json, written by lib/tlc.py) is run again
  (a) unchanged: must be accepted with no guard failing,
  (b) with ONE event corrupted, dropped or duplicated by a targeted mutation: must be rejected
      (a guard of the expected family fails, or a line is no longer explained).
A mutation that is accepted means the specification does not constrain that part of the trace.
Not a listed property: `./check selftest` (exit 0 = every layer bound, 1 = a mutation went unnoticed, 2 = tool error)."""
import copy, json, os, subprocess, sys
import tlc
from common import WORK, ROOT, ToolError, log, fresh_dir

NEEDS = []


def first(lines, pred, start=0):
    for i in range(start, len(lines)):
        if pred(lines[i]):
            return i
    return None


def edit(pred, fn):
    """mutation: apply fn (in place) to the first event satisfying pred"""
    def m(lines):
        i = first(lines, pred)
        if i is None:
            return None
        fn(lines[i])
        return lines
    return m


def drop(pred):
    def m(lines):
        i = first(lines, pred)
        if i is None:
            return None
        del lines[i]
        return lines
    return m


def dup(pred):
    def m(lines):
        i = first(lines, pred)
        if i is None:
            return None
        lines.insert(i + 1, copy.deepcopy(lines[i]))
        return lines
    return m


def swap_hook_ends(lines):
    # two consecutive hook runs of one call, with different hooks: exchange their order
    for i in range(len(lines) - 3):
        a, b, c, d = lines[i:i + 4]
        if a["e"] == "Start" and b["e"] == "End" and c["e"] == "Start" and d["e"] == "End" and a["hook"] != c["hook"]:
            lines[i:i + 4] = [c, d, a, b]
            return lines
    return None


def setk(path, value):
    def f(e):
        cur = e
        for k in path[:-1]:
            cur = cur[k]
        cur[path[-1]] = value(cur[path[-1]]) if callable(value) else value
    return f


def reuse_nonce(lines):
    # a POST is given the nonce of an earlier POST of the same run
    seen = None
    for e in lines:
        if e["e"] in ("Reset", "ClientReset"):
            seen = None
        if e["e"] == "CaPost" and e.get("delivered") and e.get("nonce") not in (None, "none"):
            if seen and seen != e["nonce"]:
                e["nonce"] = seen
                return lines
            seen = e["nonce"]
    return None


LAYERS = [
    # (name, call tag, check that produces it, [(mutation name, function, label prefix expected ("" = any rejection))])
    ("AcmeHttp (C04)", "C04_tv_tv", "C04", [
        ("signature verdict of a delivered POST set to false", edit(lambda e: e["e"] == "CaPost" and e.get("delivered"), setk(["sig_ok"], False)), "C04_"),
        ("a POST carries the nonce of an earlier POST", reuse_nonce, "C04_Fresh"),
        ("the GET that issued the first nonce is dropped", drop(lambda e: e["e"] == "CaGet" and e.get("rnonce") not in (None, "none")), "C04_Fresh"),
    ]),
    ("AcmeHttp (C08)", "C08_tv_tv", "C08", [
        ("a recoverable error not followed by a retransmission (the retry dropped)", lambda ls: (lambda i: None if i is None else ls[:i + 1] + [e for e in ls[i + 1:first(ls, lambda x: x["e"] in ("PostBegin", "AttemptOver"), i + 1) or len(ls)] if e["e"] not in ("HttpPost", "CaPost", "NonceSet", "HttpOk", "HttpErr", "CaGet")] + ls[first(ls, lambda x: x["e"] in ("PostBegin", "AttemptOver"), i + 1) or len(ls):])(first(ls, lambda e: e["e"] == "HttpErr" and e.get("recov"))), "C08_RetriesRecoverable"),
        ("a call that ended in a fatal answer followed by more requests of the same caller (an HttpOk turned into an error of type unauthorized)", lambda ls: (lambda i: None if i is None else ls[:i] + [{"e": "HttpErr", "type": "unauthorized", "recov": False}] + ls[i + 1:])(first(ls, lambda e: e["e"] == "HttpOk")), "C08_FailureEndsAttempt"),
        ("an 11th transmission: one HttpPost of a long run duplicated ten times", lambda ls: (lambda i: None if i is None else ls[:i] + [copy.deepcopy(ls[i]) for _ in range(11)] + ls[i + 1:])(first(ls, lambda e: e["e"] == "HttpPost")), "C08_"),
    ]),
    ("AcmeFlow", "C03_tv_tv", "C03", [
        ("the key found by a post-operation hook replaced by another one", edit(lambda e: e["e"] == "PostOp" and e.get("is_success") and e["key"].get("ok"), setk(["key", "spki"], "0" * 64)), "C03_"),
    ]),
    ("AcmeFlow (C01)", "C01_tv_tv", "C01", [
        ("one name removed from the CSR", edit(lambda e: e["e"] == "Finalize" and len(e["csr"]["names"]) > 1, setk(["csr", "names"], lambda v: v[:-1])), "C01_CsrNames"),
        ("an identifier added to the order", edit(lambda e: e["e"] == "NewOrder", setk(["ids"], lambda v: v + ["dns:extra.example.org"])), "C01_OrderIds"),
    ]),
    ("AcmeFlow (C05)", "C05_tv_tv", "C05", [
        ("the challenge hook run dropped (readiness posted without it)", drop(lambda e: e["e"] == "ChalHook" and not e.get("clean")), "C05_"),
        ("the proof handed to the hook altered", edit(lambda e: e["e"] == "ChalHook" and not e.get("clean") and e.get("proof") not in (None, "none"), setk(["proof"], lambda v: v + "x")), "C05_Proof"),
    ]),
    ("AcmeFlow (C07)", "C07_tv_tv", "C07", [
        ("a post-operation report duplicated", dup(lambda e: e["e"] == "PostOp"), "C07_"),
    ]),
    ("Storage", "C02_replay_tv", "C02", [
        ("one more block found on disk than was written", edit(lambda e: e["e"] == "Write" and e["seen"]["runs"], setk(["seen", "runs"], lambda v: v + [{"fill": 9, "len": 1}])), "C02_NoResidue"),
        ("file found empty when write_file returned", edit(lambda e: e["e"] == "Write", setk(["ret", "runs"], [])), "C02_CompleteAtReturn"),
    ]),
    ("Storage (C13)", "C13_replay_tv", "C13", [
        ("world-readable bit added to a created key file", edit(lambda e: e["e"] == "Write" and e["type"] == "pk" and "or" not in e["seen"]["mode"], setk(["seen", "mode"], lambda v: sorted(v + ["or"]))), "C13_"),
        ("owner of the file found to be uid 4242", edit(lambda e: e["e"] == "Write" and e["type"] != "account", setk(["seen", "uid"], 4242)), "C13_Owner"),
    ]),
    ("Schedule", "C06_tv", "C06", [
        ("a waiting time a million seconds longer", edit(lambda e: e.get("files") == "both" and e.get("rel") == "equal", setk(["samples"], lambda v: [v[0] + 10 ** 6] + v[1:])), "C06_NeverLate"),
        ("immediate renewal although nothing is missing", edit(lambda e: e.get("files") == "both" and e.get("rel") == "equal" and e["e"] - e["d"] - e["j"] > 100000, setk(["samples"], lambda v: [0] * len(v))), "C06_"),
    ]),
    ("RateLimit", "C09_tv", "C09", [
        ("every admission of a burst moved to the same instant", lambda ls: (lambda i: None if i is None else [dict(e, t=ls[i]["t"]) if (j >= i and e["e"] == "Admit" and j < i + 12) else e for j, e in enumerate(ls)])(first(ls, lambda e: e["e"] == "Admit" and e["t"] > 0)), "C09_Window"),
    ]),
    ("RateLimit (daemon)", "C09_tv", "C09", [
        ("a request that left without a fresh admission (the admission before a Send dropped)", lambda ls: (lambda i: None if i is None else ls[:i - 1] + ls[i:] if ls[i - 1]["e"] == "Admit" else None)(first(ls, lambda e: e["e"] == "Send")), "C09_SentWhenAdmitted"),
    ]),
    ("Hooks", "C10_tv", "C10", [
        ("the template variable env showing another value than the process environment", edit(lambda e: e["e"] == "End" and e.get("envs"), setk(["envs"], lambda v: [dict(v[0], tvalue="elsewhere")] + v[1:])), "C10_Env"),
        ("two hook runs of one call exchanged", swap_hook_ends, "C10_"),
        ("a second hook started before the first ended", lambda ls: (lambda i: None if i is None else ls[:i + 1] + [copy.deepcopy(ls[i])] + ls[i + 1:])(first(ls, lambda e: e["e"] == "Start")), "C10_OneAtATime"),
        ("the clean call of a validated challenge dropped (with its hook runs)", lambda ls: (lambda i: None if i is None else ls[:i] + ls[(first(ls, lambda x: x["e"] in ("Call", "EndRun", "Write"), i + 1) or len(ls)):])(first(ls, lambda e: e["e"] == "Call" and e["type"].endswith("-clean"))), "C10_CleanAfterValidation"),
        ("a documented variable arrived with another value", edit(lambda e: e["e"] == "End" and e["role"] == "chal", setk(["obs", "vars", "identifier"], "other.example.org")), "C10_Vars"),
    ]),
    ("Template", "C10_tpl_tv", "C10", [
        ("a rendered template arrived with one more character", edit(lambda e: e["e"] == "Render", setk(["out"], lambda v: v + "x")), "C10_Template"),
    ]),
    ("Groups", "C19_groups_tv", "C19", [
        ("loading a cyclic graph ended in a crash", edit(lambda e: e["e"] == "Load" and e["obs"]["kind"] == "error", setk(["obs", "kind"], "crash")), "C19_"),
    ]),
    ("Account", "C11_tv", "C11", [
        ("a newAccount request duplicated", dup(lambda e: e["e"] == "CaNewAccount" and e.get("created")), "C11_CreateOnlyWhen"),
        ("the key reloaded after a restart differs from the one saved", lambda ls: (lambda i: None if i is None else (ls[i]["img"].__setitem__("cur", "x" * 43), ls)[1])(first(ls, lambda e: e["e"] == "Loaded" and e["img"]["ep"]["A"]["url"] != "none")), "C11_Durable"),
        ("a second contacts update in one renewal", dup(lambda e: e["e"] == "CaUpdate"), "C11_OneUpdatePerItem"),
        ("a renewal ending with a current key of another type than configured", edit(lambda e: e["e"] == "RenewEnd" and e.get("ok"), setk(["ktc"], "rsa4096x")), "C11_InStepAfterRenew"),
    ]),
    ("Locks", "C12_tv", "C12", [
        ("an ACME request made without the endpoint lock (acquisition dropped)", drop(lambda e: e["e"] == "LockAcq" and e["lock"][0] == "endpoint" and e["mode"] == "w"), "C12_"),
        ("an account registered twice", dup(lambda e: e["e"] == "Created"), "C12_RegisterOnce"),
    ]),
    ("Config", "C14_tv", "C14", [
        ("the global value observed although the certificate sets one", edit(lambda e: e["e"] == "Prec" and e["present"]["cert"] and e["present"]["global"], setk(["observed"], "global")), "C14_"),
    ]),
    ("Tacd (C16)", "C16_tv", "C16", [
        ("a handshake offering only h2 completed", edit(lambda e: e["e"] == "Tls" and e["offer"] == ["h2"], setk(["res", "completed"], True)), "C16_RefuseForeign"),
        ("the acmeIdentifier value differs by one digit", edit(lambda e: e["e"] == "Tls" and e["res"]["completed"] and "acme-tls/1" in e["offer"], setk(["res", "acme_value"], lambda v: v[:-1] + ("0" if v[-1] != "0" else "1"))), "C16_AcmeId"),
    ]),
    ("Tacd (C17)", "C17_tv", "C17", [
        ("the daemon found dead after a hostile connection", edit(lambda e: e["e"] == "Alive" and e["alive"], setk(["alive"], False)), "C17_"),
    ]),
    ("Trust", "C18_tv", "C18", [
        ("requests arrived at a server the configuration does not trust", edit(lambda e: e.get("requests") == 0 and not e.get("success"), setk(["requests"], 3)), "C18_"),
    ]),
    ("Period", "C19_tv", "C19", [
        ("a parsed period one second longer", edit(lambda e: e["e"] == "Period" and e.get("ok") and e.get("val"), setk(["val"], lambda v: [(v[0] + 1) % 1000] + v[1:])), "C19_"),
        ("a start-up that ended in a crash", edit(lambda e: e["e"] == "Start", setk(["outcome"], "crash")), "C19_"),
    ]),
    ("DefaultHooks", "C20_tv", "C20", [
        ("a socket left behind after the clean hooks", edit(lambda e: e["e"] == "AfterRun", setk(["world", "socks"], 1)), "C20_NoLeftovers"),
        ("a validation that failed", edit(lambda e: e["e"] == "Validated", setk(["ok"], False)), "C20_"),
    ]),
    ("Lifecycle", "X01_tv", "X01", [
        ("a pid file naming no running process", edit(lambda e: (e.get("obs") or {}).get("pidfile") == "names_process", setk(["obs", "pidfile"], "stale")), "L_"),
    ]),
    ("MainLoop", "X02_tv", "X02", [
        ("a back-off of 61 s", edit(lambda e: e["e"] == "Sleep" and e["kind"] == "sched_backoff", setk(["s"], 61)), "X02_BackoffTable"),
        ("the pause after a failure dropped", drop(lambda e: e["e"] == "Sleep" and e["kind"] == "renew_fail"), "X02_PauseAfterFailure"),
        ("a request started before the scheduled sleep", drop(lambda e: e["e"] == "Sleep" and e["kind"] == "schedule"), "X02_RequestOnlyWhenDue"),
    ]),
    ("Protocol", "X03_tv", "X03", [
        ("the order poll that answered ready reported as pending", edit(lambda e: e["e"] == "OrderPoll" and e["status"] == "ready", setk(["status"], "pending")), "X03_FinalizeAfterReady"),
        ("a challenge answered twice", dup(lambda e: e["e"] == "Chall" and e["ok"]), "X03_ChallengeOnce"),
        ("the download dropped from a successful attempt", drop(lambda e: e["e"] == "Cert" and e["ok"]), "X03_SuccessNeedsDownload"),
        ("an authorization polled once more after valid", dup(lambda e: e["e"] == "Authz" and e["status"] == "valid"), "X03_StopAtValidAuthz"),
    ]),
]


def load_call(tag, producer):
    p = os.path.join(WORK, "calls", tag + ".json")
    if not os.path.exists(p) or not os.path.exists(json.load(open(p))["trace"]):
        log("selftest: no recorded validation %s, running ./check %s" % (tag, producer))
        r = subprocess.run([os.path.join(ROOT, "check"), producer], env=dict(os.environ, VERIF_EVIDENCE_DIR=os.path.join(WORK, "selftest_evidence")),
                           stdout=subprocess.DEVNULL, stderr=subprocess.DEVNULL)
        if r.returncode != 0 or not os.path.exists(p):
            raise ToolError("selftest: ./check %s did not produce the validation %s (rc=%s)" % (producer, tag, r.returncode))
    return json.load(open(p))


def run(ctx):
    root = fresh_dir("selftest")
    table, unnoticed, inapplicable = [], [], []
    n_states = n_trans = 0
    for name, tag, producer, muts in LAYERS:
        call = load_call(tag, producer)
        lines = [json.loads(l) for l in open(call["trace"]) if l.strip()]
        # very long traces: a prefix keeps the run short (mutations look for their first applicable event)
        base = tlc.validate_trace(call["module"], call["cfg"], "selftest_%s_base" % tag, call["trace"], timeout=1800, env=call["env"], heap=call.get("heap", "4g"))
        n_states += base["distinct"]
        n_trans += base["generated"]
        if not base["clean"]:
            raise ToolError("selftest: the unchanged trace of %s is not accepted cleanly (bad=%s unmatched=%s)" % (name, base["bad"][:2], base["unmatched"]))
        for k, (mname, fn, expect) in enumerate(muts):
            m = fn(copy.deepcopy(lines))
            if m is None:
                inapplicable.append((name, mname))
                table.append({"layer": name, "mutation": mname, "result": "not applicable to this trace"})
                continue
            path = os.path.join(root, "%s_%d.ndjson" % (tag, k))
            open(path, "w").write("".join(json.dumps(e) + "\n" for e in m))
            r = tlc.validate_trace(call["module"], call["cfg"], "selftest_%s_%d" % (tag, k), path, timeout=1800, env=call["env"], heap=call.get("heap", "4g"))
            n_states += r["distinct"]
            n_trans += r["generated"]
            labels = sorted({l for _, ls in r["bad"] for l in ls})
            rejected = bool(r["bad"]) or r["unmatched"] is not None or bool(r["hard_errors"])
            as_expected = rejected and (not expect or any(l.startswith(expect) for l in labels) or (not labels and r["unmatched"] is not None))
            table.append({"layer": name, "mutation": mname, "result": "rejected" if rejected else "ACCEPTED", "labels": labels[:6],
                          "unmatched_line": r["unmatched"], "expected_family": expect, "as_expected": as_expected})
            if not rejected or not as_expected:
                unnoticed.append((name, mname, labels))
            os.unlink(path)
    for name, mname, labels in unnoticed:
        ctx.verdict.violation("binding: %s - %s - %s" % (name, mname, ("went unnoticed" if not labels else "rejected only by %s" % labels)), os.path.join(ROOT, "lib", "checks", "selftest.py"))
    layers_without = sorted({n for n, _, _, ms in LAYERS} - {t["layer"] for t in table if t["result"] != "not applicable to this trace"})
    if layers_without:
        raise ToolError("selftest: no mutation applicable for %s" % layers_without)
    cov = {"states": n_states, "transitions": n_trans, "traces_validated_against_impl": len(table), "samples": table[:3], "table": table,
           "layers": len(LAYERS), "mutations_rejected": sum(1 for t in table if t["result"] == "rejected"), "mutations_not_applicable": len(inapplicable),
           "exhaustive": False,
           "rule": "every trace specification re-validates its last recorded trace unchanged (must be clean) and with one targeted corruption (must be rejected by the expected guard family)"}
    return {"coverage": cov, "assumptions": ["not a listed property: demonstrates that the specifications constrain the recorded traces (DESIGN.md section 4)"]}
