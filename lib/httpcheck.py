"""What C04 and C08 share: AcmeHttp model checking + validation of endpoint traces against Trace_AcmeHttp."""
import json, os
import tlc, project
from common import fresh_dir, save_replay, ToolError, log, WORK

C04 = ["C04_Fresh", "C04_Url", "C04_Flattened", "C04_AlgMatchesKey", "C04_JwkOnlyForNewAccount",
       "C04_KidIsAccountUrl", "C04_SigUnderRecordedKey", "C04_KeyChangeInner", "C04_Eab"]
C08 = ["C08_FailureEndsAttempt", "C08_NoResendAfterFailure", "C08_RetriesRecoverable", "C08_AtMost10", "C08_RetryOnlyRecoverable", "C08_SameContent", "C08_NewestNonce", "C08_NoSuccessOnError",
       "C08_NoProblemDocFails", "C08_PollAtMost20", "C08_ClassifyRecoverable"]

MC_CFG = """SPECIFICATION Spec
CONSTANTS
  MaxTries = %(tries)d
  MaxPolls = %(polls)d
  Nonces = {%(nonces)s}
  Contents = {"u1","u2"}
  MaxRequests = %(reqs)d
  Enforce = %(enforce)s
  Deviations = %(dev)s
INVARIANTS %(inv)s
%(props)s
CHECK_DEADLOCK FALSE
"""

TRACE_CFG = """SPECIFICATION TSpec
CONSTANTS
  MaxTries = 10
  MaxPolls = 20
  Nonces = {}
  Contents = {}
  MaxRequests = 0
  Enforce = %s
  Deviations = {}
POSTCONDITION Accepted
CHECK_DEADLOCK FALSE
"""


def model_check(tag, tier):
    """Exhaustive TLC run of the ideal client, witnesses for non-vacuity, and the known deviations."""
    big = tier == "thorough"
    p = dict(tries=4 if big else 3, polls=3 if big else 2, reqs=3, nonces=",".join('"n%d"' % i for i in range(1, (14 if big else 10))),
             enforce=tlc.tla_set(C04 + C08), dev="{}", inv="TypeOK NoBad C08_BoundInv C08_SuccessInv C08_PollInv",
             props="PROPERTIES C08_NoResendAct")
    r = tlc.model_check("AcmeHttp", MC_CFG % p, tag + "_mc", workers=8, timeout=1500,
                        required_actions=["MCBegin", "MCFetch", "MCCa", "MCReact"])
    if r["violated"]:
        raise ToolError("the AcmeHttp model violates %s with the ideal client: model bug (%s)" % (r["violated"], r["out_path"]))
    if r["vacuous_actions"]:
        raise ToolError("vacuous model run, actions never taken: %s" % r["vacuous_actions"])
    out = {"states": r["distinct"], "transitions": r["generated"], "depth": r["depth"], "actions": r["actions"],
           "constants": {k: p[k] for k in ("tries", "polls", "reqs")}, "wall": round(r["wall"], 1)}
    # non-vacuity: these states must be reachable (TLC must report the "invariants" violated)
    w = dict(p, inv="W_RetryHappens", props="")
    r1 = tlc.model_check("AcmeHttp", MC_CFG % w, tag + "_w1", workers=4, timeout=600)
    w = dict(p, inv="W_SuccessAfterRetry", props="")
    r2 = tlc.model_check("AcmeHttp", MC_CFG % w, tag + "_w2", workers=4, timeout=600)
    if not r1["violated"] or not r2["violated"]:
        raise ToolError("vacuity: retry-exhaustion / success-after-retry states are unreachable in the model")
    # the two departures the code had before commit 7734dc6 must be caught by the model
    devs = {}
    for d in ("NonceNotCleared", "SendWithoutNonce", "NoRefetchOnRetry", "PollSwallowsFailure", "FailureOnlyLogged"):
        rd = tlc.model_check("AcmeHttp", MC_CFG % dict(p, dev='{"%s"}' % d, props=""), tag + "_dev", workers=4, timeout=600)
        devs[d] = "NoBad" in rd["violated"]
        if not devs[d]:
            raise ToolError("model sanity: deviation %s does not violate NoBad" % d)
    out["deviations_detected_by_model"] = devs
    return out


def validate(tag, results, labels, eps=("A",), resets=None):
    """results: list of run_one() results. Returns (bad list [(result idx, labels, line event)], stats)."""
    d = fresh_dir(tag)
    lines, owner = [], []
    for i, r in enumerate(results):
        for ep in eps if not callable(eps) else eps(r):
            evs = project.http_layer(r["events"], ep, None)
            if not evs:
                continue
            # a daemon restart inside one scenario: the client's nonce cell starts empty again
            evs2 = []
            for e in evs:
                evs2.append(e)
            lines.append({"e": "Reset"})
            owner.append(i)
            for e in split_restarts(r["events"], ep):
                lines.append(e)
                owner.append(i)
    path = os.path.join(d, "http.ndjson")
    with open(path, "w") as f:
        for e in lines:
            f.write(json.dumps(e) + "\n")
    r = tlc.validate_trace("Trace_AcmeHttp", TRACE_CFG % tlc.tla_set(labels), tag.replace("/", "_") + "_tv", path,
                           timeout=1800, heap="8g")
    if r["hard_errors"]:
        raise ToolError("TLC failed on the trace: %s (%s)" % (r["hard_errors"][:2], r["out_path"]))
    stats = {"events": len(lines), "runs": len(results), "tlc_states": r["distinct"], "wall": round(r["wall"], 1)}
    bad = [(owner[ln - 1], labs, lines[ln - 1]) for ln, labs in r["bad"]]
    unmatched = None
    if r["unmatched"] is not None and r["unmatched"] <= len(lines):
        unmatched = (owner[r["unmatched"] - 1], lines[r["unmatched"] - 1], r["unmatched"])
    return bad, unmatched, stats, path


def split_restarts(events, ep):
    """Projects one scenario's events; a DaemonStart after the first becomes ClientReset."""
    out, chunk, first = [], [], True
    for e in events:
        if e.get("src") == "drv" and e.get("ev") == "DaemonStart":
            out += project.http_layer(chunk, ep, None)
            chunk = []
            if not first:
                out.append({"e": "ClientReset"})
            first = False
            continue
        chunk.append(e)
    out += project.http_layer(chunk, ep, None)
    return out
