"""./check <ID> --replay <dir>: re-judges what a replay directory holds.

Trace-based replays (trace.ndjson + scenario.json) are re-validated against the layer's trace specification with the
property's labels; point-based replays (a single grid point / history) print what was violated and how to re-execute."""
import json, os, sys
from common import read_trace, EXIT_OK, EXIT_VIOLATION, EXIT_TOOL, log

FLOW = {"C01": "L01", "C02": "L02", "C03": "L03", "C05": "L05", "C07": "L07"}
HTTP = {"C04": "C04", "C08": "C08"}


def replay(pid, d):
    d = os.path.abspath(d)
    viol = os.path.join(d, "violated.json")
    if os.path.exists(viol):
        log("recorded violation: %s" % open(viol).read()[:600])
    tr = os.path.join(d, "trace.ndjson")
    sc = os.path.join(d, "scenario.json")
    if os.path.exists(tr) and os.path.exists(sc) and (pid in FLOW or pid in HTTP):
        meta = json.load(open(sc))
        res = {"tag": "replay/%s" % pid, "meta": meta, "events": read_trace(tr), "world": d, "runs": []}
        if pid in FLOW and meta.get("flow"):
            import flowcheck
            bad, stats, _ = flowcheck.validate("replay/%s" % pid, [res], getattr(flowcheck, FLOW[pid]))
        else:
            import httpcheck
            eps = sorted({e["ep"] for e in res["events"] if e.get("src") == "ca" and "ep" in e})
            bad, unmatched, stats, _ = httpcheck.validate("replay/%s" % pid, [res], getattr(httpcheck, HTTP.get(pid, "C04")), eps=eps)
        for _, labs, ev in bad[:5]:
            log("  %s at %s" % (labs, json.dumps(ev)[:300]))
        if bad:
            print("VIOLATION property=%s replay=%s" % (pid, d), flush=True)
            return EXIT_VIOLATION
        log("replayed trace is accepted with the labels of %s (%s)" % (pid, stats))
        return EXIT_OK
    log("replay directory %s holds a single case (see its *.json files); re-run `./check %s` to execute it again" % (d, pid))
    return EXIT_OK
