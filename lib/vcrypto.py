"""Client for the vcrypto helper (independent OpenSSL oracle, one persistent process)."""
import json, subprocess, threading, os

ROOT = os.path.dirname(os.path.dirname(os.path.abspath(__file__)))
BIN = os.path.join(ROOT, "target", "harness", "debug", "vcrypto")


class VCrypto:
    def __init__(self):
        self.p = subprocess.Popen([BIN], stdin=subprocess.PIPE, stdout=subprocess.PIPE, text=True, bufsize=1)
        self.lock = threading.Lock()

    def call(self, cmd, **kw):
        kw["cmd"] = cmd
        with self.lock:
            self.p.stdin.write(json.dumps(kw) + "\n")
            self.p.stdin.flush()
            line = self.p.stdout.readline()
        if not line:
            raise RuntimeError("vcrypto died")
        return json.loads(line)

    def must(self, cmd, **kw):
        r = self.call(cmd, **kw)
        if not r.get("ok_call"):
            raise RuntimeError("vcrypto %s: %s" % (cmd, r.get("error")))
        return r

    def close(self):
        try:
            self.p.stdin.close()
            self.p.wait(timeout=5)
        except Exception:
            self.p.kill()


_shared = None


def shared():
    global _shared
    if _shared is None:
        _shared = VCrypto()
    return _shared
