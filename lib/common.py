"""Shared plumbing: paths, builds, evidence files, verdict lines, known findings."""
import json, os, shutil, subprocess, sys, time, hashlib

ROOT = os.path.dirname(os.path.dirname(os.path.abspath(__file__)))
REPO = os.environ.get("VERIF_REPO", "/repo")
WORK = os.path.join(ROOT, "work")
REPLAYS = os.path.join(ROOT, "replays")
EVID = os.environ.get("VERIF_EVIDENCE_DIR") or os.path.join(ROOT, "evidence")   # sanity runs against seeded changes write elsewhere
TARGET = os.path.join(ROOT, "target")
FEATURE = "breard_r_acmed_verif"
ACMED = os.path.join(TARGET, "repo", "debug", "acmed")
TACD_DEBUG = os.path.join(TARGET, "repo", "debug", "tacd")
TACD_RELEASE = os.path.join(TARGET, "repo", "release", "tacd")
HOOKREC = os.path.join(TARGET, "harness", "debug", "hookrec")
VCRYPTO = os.path.join(TARGET, "harness", "debug", "vcrypto")

EXIT_OK, EXIT_VIOLATION, EXIT_TOOL = 0, 1, 2


class ToolError(Exception):
    """The machinery (not the code under test) failed: exit 2, never a VIOLATION."""


def log(*a):
    print(*a, file=sys.stderr, flush=True)


def sh(cmd, timeout=1800, cwd=None, env=None, check=True, quiet=True):
    e = dict(os.environ)
    e.update({"CARGO_NET_OFFLINE": "true"})
    if env:
        e.update(env)
    p = subprocess.run(cmd, cwd=cwd, env=e, stdout=subprocess.PIPE, stderr=subprocess.STDOUT, text=True, timeout=timeout)
    if check and p.returncode != 0:
        raise ToolError("command failed (%d): %s\n%s" % (p.returncode, " ".join(cmd), p.stdout[-4000:]))
    return p


_built = {}


def build_harness():
    if _built.get("harness"):
        return
    sh(["cargo", "build", "--offline"], cwd=os.path.join(ROOT, "harness"))
    _built["harness"] = True


def build_acmed():
    """Rebuilds acmed from /repo's working tree with the verification feature."""
    if _built.get("acmed"):
        return
    t0 = time.time()
    sh(["cargo", "build", "--offline", "--manifest-path", os.path.join(REPO, "acmed", "Cargo.toml"),
        "--features", FEATURE, "--target-dir", os.path.join(TARGET, "repo")])
    _built["acmed"] = True
    log("built acmed in %.1fs" % (time.time() - t0))


def build_tacd(release=False):
    key = "tacd_release" if release else "tacd"
    if _built.get(key):
        return
    cmd = ["cargo", "build", "--offline", "--manifest-path", os.path.join(REPO, "tacd", "Cargo.toml"),
           "--target-dir", os.path.join(TARGET, "repo")]
    if release:
        cmd.append("--release")
    sh(cmd, timeout=3600)
    _built[key] = True


def fresh_dir(*parts):
    d = os.path.join(WORK, *parts)
    shutil.rmtree(d, ignore_errors=True)
    os.makedirs(d, exist_ok=True)
    return d


def repo_state():
    try:
        head = subprocess.run(["git", "-C", REPO, "rev-parse", "HEAD"], capture_output=True, text=True).stdout.strip()
        dirty = subprocess.run(["git", "-C", REPO, "status", "--porcelain"], capture_output=True, text=True).stdout
        return {"head": head, "dirty": bool(dirty.strip())}
    except Exception:
        return {}


def known_findings():
    p = os.path.join(ROOT, "known_findings.json")
    if not os.path.exists(p):
        return []
    return json.load(open(p))["findings"]


class Verdict:
    """Collects violations for one property; separates listed (open) findings from new ones."""

    def __init__(self, pid):
        self.pid = pid
        self.violations = []   # (finding_key or None, text, replay)
        self.open = {f["id"]: f for f in known_findings() if f["property"] == pid and f["status"] == "open"}
        self.seen_known = {}

    def violation(self, text, replay, key=None):
        """key: identifier of a known-finding instance this violation is an instance of (or None)."""
        if key is not None and key in self.open:
            self.seen_known.setdefault(key, text)
            return
        self.violations.append((text, replay))

    def finish(self):
        for k, text in self.seen_known.items():
            print("KNOWN-FINDING: property=%s %s (%s)" % (self.pid, self.open[k]["what"], k), flush=True)
        for text, replay in self.violations[:20]:
            print("VIOLATION property=%s replay=%s" % (self.pid, replay), flush=True)
            log("  " + text)
        return EXIT_VIOLATION if self.violations else EXIT_OK


def save_replay(pid, name, files):
    """files: {relative name: str|bytes|path-to-copy}. Returns the replay directory."""
    d = os.path.join(REPLAYS, pid, name)
    shutil.rmtree(d, ignore_errors=True)
    os.makedirs(d, exist_ok=True)
    for rel, content in files.items():
        dst = os.path.join(d, rel)
        os.makedirs(os.path.dirname(dst), exist_ok=True)
        if isinstance(content, bytes):
            open(dst, "wb").write(content)
        elif isinstance(content, str) and os.path.exists(content) and "\n" not in content:
            if os.path.isdir(content):
                shutil.copytree(content, dst, dirs_exist_ok=True)
            else:
                shutil.copy(content, dst)
        else:
            open(dst, "w").write(content if isinstance(content, str) else json.dumps(content, indent=1, sort_keys=True))
    return d


def write_evidence(pid, tier, seed, coverage, wall_s, violations, assumptions, extra=None):
    os.makedirs(EVID, exist_ok=True)
    ev = {"property_id": pid, "tier": tier, "seed": int(seed), "level": "model_checking", "coverage": coverage,
          "assumptions": assumptions, "wall_s": round(wall_s, 2), "violations": int(violations),
          "repo": repo_state()}
    if extra:
        ev.update(extra)
    tmp = os.path.join(EVID, pid + ".json.tmp")
    json.dump(ev, open(tmp, "w"), indent=1, sort_keys=True, default=str)
    os.replace(tmp, os.path.join(EVID, pid + ".json"))


def read_trace(path):
    out = []
    if not os.path.exists(path):
        return out
    with open(path) as f:
        for line in f:
            line = line.strip()
            if line:
                out.append(json.loads(line))
    return out
