"""Groups.tla <-> config.rs::get_hook: every small hook-group graph is loaded by the real daemon code (config-dump probe)."""
import concurrent.futures as cf, json, os, random, shutil
import tlc
from common import fresh_dir, ToolError, HOOKREC
from daemon import probe, toml_dumps

LABELS_C19 = ["C19_LoadsOrErrors", "C19_CycleRefused"]
LABELS_C10 = ["C10_ExpandInPlace", "C10_AcyclicLoads"]
MC_CFG = """SPECIFICATION MCSpec
CONSTANTS
  Enforce = %(enforce)s
  Deviations = %(dev)s
  GroupNames = %(groups)s
  HookNames = %(hooks)s
  MaxBody = %(maxbody)d
INVARIANTS NoBad Emit
CHECK_DEADLOCK FALSE
"""
TRACE_CFG = """SPECIFICATION TSpec
CONSTANTS
  Enforce = %s
  Deviations = {}
  GroupNames = {"g1", "g2", "g3"}
  HookNames = {"h1", "h2"}
  MaxBody = 1
POSTCONDITION Accepted
CHECK_DEADLOCK FALSE
"""
ALL = LABELS_C19 + LABELS_C10


def model(tag, maxbody, hooks, dev="{}", emit=True, groups='{"g1", "g2", "g3"}'):
    p = dict(enforce=tlc.tla_set(ALL), dev=dev, hooks=hooks, maxbody=maxbody, groups=groups)
    cfg = MC_CFG % p
    if not emit:
        cfg = cfg.replace("INVARIANTS NoBad Emit", "INVARIANTS NoBad")
    return tlc.model_check("Groups", cfg, tag, workers=6, timeout=1500, heap="8g")


def load_one(args):
    idx, c, root = args
    d = os.path.join(root, "g%05d" % idx)
    shutil.rmtree(d, ignore_errors=True)
    os.makedirs(os.path.join(d, "certs"))
    os.makedirs(os.path.join(d, "accounts"))
    hooks = [{"name": h, "type": ["post-operation"], "cmd": HOOKREC, "args": ["--hook", h]} for h in ("h1", "h2")]
    groups = [{"name": g, "hooks": list(body)} for g, body in sorted(c["bodies"].items())]
    # the start list goes to the certificate for even cases and to the account (file hooks) for odd ones
    on_account = idx % 2 == 1
    if on_account:
        hooks = [dict(h, type=["file-pre-create", "file-post-create"]) for h in hooks]
    cfg = {"global": {"accounts_directory": os.path.join(d, "accounts"), "certificates_directory": os.path.join(d, "certs")},
           "endpoint": [{"name": "E", "url": "http://127.0.0.1:9/dir", "tos_agreed": True}],
           "hook": hooks, "group": groups,
           "account": [{"name": "a", "contacts": [{"mailto": "a@example.org"}], "hooks": list(c["start"]) if on_account else []}],
           "certificate": [{"name": "c", "account": "a", "endpoint": "E", "hooks": [] if on_account else list(c["start"]),
                            "identifiers": [{"dns": "g.example.org", "challenge": "http-01"}]}]}
    conf = os.path.join(d, "acmed.toml")
    open(conf, "w").write(toml_dumps(cfg))
    r = probe("config-dump", {"config": conf}, timeout=60)
    if r.get("hung") or r.get("crashed"):
        obs = {"kind": "crash", "hooks": []}
        detail = "hung" if r.get("hung") else "exit %s %s" % (r.get("rc"), (r.get("panic") or r.get("stderr", "")[-200:]))
    elif r.get("ok"):
        if on_account:
            got = list((r.get("accounts") or {}).get("a", {}).get("file_hooks") or [])
        else:
            cd = list((r.get("certificates") or {}).values())
            got = list(cd[0].get("hooks") or []) if cd else []
        obs, detail = {"kind": "loaded", "hooks": got}, ""
    else:
        obs, detail = {"kind": "error", "hooks": []}, str(r.get("error"))[:200]
    shutil.rmtree(d, ignore_errors=True)
    return idx, {"e": "Load", "bodies": {g: list(b) for g, b in c["bodies"].items()}, "start": list(c["start"]), "obs": obs, "where": "account" if on_account else "certificate",
                 "detail": detail}


def run_family(tag, tier, seed, enforce):
    """Returns (violations [(labels, event)], coverage)."""
    small = model(tag + "_mc1", 1, '{"h1", "h2"}')
    if small["violated"]:
        raise ToolError("Groups: the specification disagrees with itself: %s (%s)" % (small["violated"], small["out_path"]))
    for dev in ("CycleCheckFirstGroupOnly", "SeenInsteadOfStack"):
        rd = model(tag + "_dev", 2 if dev == "SeenInsteadOfStack" else 1, '{"h1"}', dev='{"%s"}' % dev, emit=False)
        if not rd["violated"]:
            raise ToolError("Groups model sanity: deviation %s is not caught" % dev)
    confs = [c for c in tlc.replays(small["raw"])]
    big = model(tag + "_mc2", 2, '{"h1"}')
    if big["violated"]:
        raise ToolError("Groups (bodies of two): the specification disagrees with itself: %s (%s)" % (big["violated"], big["out_path"]))
    bigc = tlc.replays(big["raw"])
    # order inside a body only shows with two distinguishable hooks: two groups, two hooks, bodies of up to three names
    # (a nested group first, in the middle or last, twice, next to either hook)
    mid = model(tag + "_mc3", 3, '{"h1", "h2"}', groups='{"g1", "g2"}')
    if mid["violated"]:
        raise ToolError("Groups (two groups, two hooks): the specification disagrees with itself: %s (%s)" % (mid["violated"], mid["out_path"]))
    midc = tlc.replays(mid["raw"])
    rng = random.Random(seed)
    n = 6000 if tier == "thorough" else 500
    cyc = [c for c in bigc if not c["ok"]]
    acy = [c for c in bigc if c["ok"]]
    confs += rng.sample(cyc, min(n // 2, len(cyc))) + rng.sample(acy, min(n // 2, len(acy)))
    macy = [c for c in midc if c["ok"] and any(len(b) >= 2 for b in c["bodies"].values())]
    confs += rng.sample(macy, min(n, len(macy))) + rng.sample([c for c in midc if not c["ok"]], min(n // 4, len(midc)))
    for c in confs:
        for g in ("g1", "g2", "g3"):
            c["bodies"].setdefault(g, [])
    root = fresh_dir(*tag.split("/"))
    lines = []
    with cf.ThreadPoolExecutor(max_workers=12) as ex:
        for idx, ev in ex.map(load_one, [(i, c, root) for i, c in enumerate(confs)]):
            lines.append(ev)
    path = os.path.join(root, "groups.ndjson")
    with open(path, "w") as f:
        for e in lines:
            f.write(json.dumps({k: v for k, v in e.items() if k not in ("detail", "where")}) + "\n")
    tv = tlc.validate_trace("Trace_Groups", TRACE_CFG % tlc.tla_set(enforce), tag.replace("/", "_") + "_tv", path, timeout=1500)
    if tv["hard_errors"] or tv["unmatched"] is not None:
        raise ToolError("TLC failed on the groups trace: %s %s (%s)" % (tv["hard_errors"][:2], tv["unmatched"], tv["out_path"]))
    bad = [(labs, lines[ln - 1]) for ln, labs in tv["bad"]]
    cov = {"graphs_in_model_bodies_le1": small["distinct"] - 1, "graphs_in_model_bodies_le2": big["distinct"] - 1, "graphs_in_model_two_groups_two_hooks_bodies_le3": mid["distinct"] - 1, "graphs_loaded_by_the_daemon": len(lines),
           "of_which_cyclic": sum(1 for c in confs if not c["ok"]), "refused": sum(1 for e in lines if e["obs"]["kind"] == "error"),
           "loaded": sum(1 for e in lines if e["obs"]["kind"] == "loaded")}
    return bad, cov
