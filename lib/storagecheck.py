"""What C02 and C13 share: Storage model checking, TLC-generated histories replayed through the real write_file."""
import concurrent.futures as cf, json, os, pwd, grp, shutil
import tlc
from common import fresh_dir, ToolError, log, WORK
from daemon import probe

BITS = {"ur": 0o400, "uw": 0o200, "ux": 0o100, "gr": 0o40, "gw": 0o20, "gx": 0o10, "or": 0o4, "ow": 0o2, "ox": 0o1,
        "suid": 0o4000, "sgid": 0o2000, "sticky": 0o1000}
BLOCK = 256
L02 = ["C02_NoResidue", "C02_CompleteAtReturn"]
L13 = ["C13_Mode", "C13_Owner", "C13_NeverWiderThanAsked", "C13_RewriteKeepsMode"]

MC_CFG = """SPECIFICATION MCSpec
CONSTANTS
  Enforce = %(enforce)s
  Deviations = %(dev)s
  Types = {"account", "pk", "crt"}
  Lens = {%(lens)s}
  MaxOps = %(maxops)d
  MCGrid = "%(grid)s"
INVARIANTS NoBad C02_Inv C13_Inv Emit
CHECK_DEADLOCK FALSE
"""
TRACE_CFG = """SPECIFICATION TSpec
CONSTANTS
  Enforce = %s
  Deviations = {}
  Types = {"account", "pk", "crt"}
  Lens = {}
  MaxOps = 0
  MCGrid = "none"
POSTCONDITION Accepted
CHECK_DEADLOCK FALSE
"""


def to_int(bits):
    return sum(BITS[b] for b in bits)


def to_bits(mode):
    return sorted(b for b, v in BITS.items() if mode & v)


def model(tag, grid, maxops, lens):
    p = dict(enforce=tlc.tla_set(L02 + L13), dev="{}", lens=",".join(str(x) for x in lens), maxops=maxops, grid=grid)
    r = tlc.model_check("Storage", MC_CFG % p, tag, workers=8, timeout=1500, required_actions=["MCWrite"])
    if r["violated"]:
        raise ToolError("Storage: the model of the code violates %s (%s)" % (r["violated"], r["out_path"]))
    reps = tlc.replays(r["raw"])
    if not reps:
        raise ToolError("Storage: TLC printed no behaviour to replay")
    return r, reps


def model_sanity(tag):
    p = dict(enforce=tlc.tla_set(L02 + L13), dev="{}", lens="1,2,3", maxops=3, grid="full")
    r = tlc.model_check("Storage", MC_CFG % p, tag + "_full", workers=4, timeout=600)
    if r["violated"]:
        raise ToolError("Storage model (full disk): the ideal write_file violates the invariants: %s" % r["violated"])
    for dev in ("WriteNoTruncate", "WriteNotFlushed", "WriteErrorSwallowed"):
        p = dict(enforce=tlc.tla_set(L02 + L13), dev='{"%s"}' % dev, lens="1,2,3", maxops=2, grid="full" if dev == "WriteErrorSwallowed" else "content")
        r = tlc.model_check("Storage", MC_CFG % p, tag + "_" + dev, workers=4, timeout=600)
        if not r["violated"]:
            raise ToolError("Storage model sanity: %s does not violate the invariants" % dev)
    return True


def name_of(kind, ident):
    try:
        return pwd.getpwuid(ident).pw_name if kind == "uid" else grp.getgrgid(ident).gr_name
    except KeyError:
        return None


def replay_one(args):
    idx, beh, root, named = args
    cfg, hist = beh["cfg"], beh["hist"]
    d = os.path.join(root, "r%05d" % idx)
    shutil.rmtree(d, ignore_errors=True)
    os.makedirs(os.path.join(d, "certs"))
    os.makedirs(os.path.join(d, "accounts"))
    t = cfg["type"]
    paths = {"account": os.path.join(d, "accounts", "YWNj.account.bin"), "pk": os.path.join(d, "certs", "c_k.pk.pem"),
             "crt": os.path.join(d, "certs", "c_k.crt.pem")}
    pre = {k: {"exists": False, "runs": [], "mode": [], "uid": 0, "gid": 0} for k in paths}
    if cfg["pre"] in (2, 3):
        n, mode = (2, 0o600) if cfg["pre"] == 2 else (3, 0o666)
        for k, p in paths.items():
            with open(p, "wb") as f:
                f.write(bytes([9]) * (n * BLOCK))
            os.chmod(p, mode)
            os.chown(p, 0, 0)
            pre[k] = {"exists": True, "runs": [{"fill": 9, "len": n}], "mode": to_bits(mode), "uid": 0, "gid": 0}

    def owner(kind, v):
        if v == -1:
            return None
        if named:
            nm = name_of(kind, v)
            if nm:
                return nm
        return str(v)
    fm = {"account_name": "acc", "account_directory": os.path.join(d, "accounts"), "crt_name": "c", "crt_directory": os.path.join(d, "certs"),
          "crt_key_type": "k", "cert_file_mode": to_int(cfg["mode"]["crt"]), "pk_file_mode": to_int(cfg["mode"]["pk"])}
    for key, kind, ty in (("cert_file_owner", "uid", "crt"), ("cert_file_group", "gid", "crt"), ("pk_file_owner", "uid", "pk"), ("pk_file_group", "gid", "pk")):
        o = owner(kind, cfg[kind][ty])
        if o is not None:
            fm[key] = o
    # (hand-written histories name their fill - the same data written again - and may hold steps of another process: `external`)
    ops = [{"type": h["type"], "len": h["len"] * BLOCK, "fill": h.get("fill", i + 1), "external": bool(h.get("external"))} for i, h in enumerate(hist)]
    # every fifth history runs on a "full disk": no file may grow beyond one and a half blocks, longer writes fail half-way
    limit = BLOCK + BLOCK // 2 if idx % 5 == 4 else None
    r = probe("storage", {"fm": fm, "umask": to_int(cfg["umask"]), "ops": ops}, fsize_limit=limit)
    ev = [{"e": "Reset", "mode": {k: sorted(v) for k, v in cfg["mode"].items()}, "uid": cfg["uid"], "gid": cfg["gid"],
           "umask": sorted(cfg["umask"]), "pre": pre, "idx": idx}]
    if not r.get("ok"):
        return idx, ev, "probe failed: %s" % r
    for h, res in zip(hist, r["results"]):
        def obs(s):
            if s.get("exists"):
                runs = [{"fill": b, "len": (c // BLOCK if c % BLOCK == 0 else -c)} for b, c in s["runs"]]
                return {"exists": True, "runs": runs, "mode": to_bits(s["mode"]), "uid": s["uid"], "gid": s["gid"]}
            return {"exists": False, "runs": [], "mode": [], "uid": 0, "gid": 0}
        if h.get("external"):
            if not res.get("ok"):
                return idx, ev, "the harness could not replace the file: %s" % res
            ev.append({"e": "External", "type": h["type"], "seen": obs(res["seen"])})
            continue
        if not res.get("ok"):
            if limit is None or "seen" not in res:
                return idx, ev, "write failed: %s" % res
            # write_file reported the failure: whatever is on disk, nobody was told it is the new content
            ev.append({"e": "WriteFailed", "type": h["type"], "seen": obs(res["seen"])})
            continue
        ev.append({"e": "Write", "type": h["type"], "fill": res["fill"], "len": h["len"],
                   "ret": obs(res.get("at_return", res["seen"])), "seen": obs(res["seen"])})
    shutil.rmtree(d, ignore_errors=True)
    return idx, ev, None


def replay_and_validate(tag, behaviours, labels, named_every=2):
    root = fresh_dir(tag)
    lines, owner = [], []
    with cf.ThreadPoolExecutor(max_workers=12) as ex:
        for idx, ev, err in ex.map(replay_one, [(i, b, root, (i % named_every) == 0) for i, b in enumerate(behaviours)]):
            if err:
                raise ToolError("storage replay %d: %s" % (idx, err))
            for e in ev:
                lines.append(e)
                owner.append(idx)
    path = os.path.join(root, "storage.ndjson")
    with open(path, "w") as f:
        for e in lines:
            f.write(json.dumps(e) + "\n")
    r = tlc.validate_trace("Trace_Storage", TRACE_CFG % tlc.tla_set(labels), tag.replace("/", "_") + "_tv", path, timeout=1800, heap="8g")
    if r["hard_errors"] or r["unmatched"] is not None:
        raise ToolError("TLC failed on the storage trace: %s unmatched=%s (%s)" % (r["hard_errors"][:2], r["unmatched"], r["out_path"]))
    bad = [(owner[ln - 1], labs, lines[ln - 1]) for ln, labs in r["bad"]]
    return bad, {"events": len(lines), "behaviours": len(behaviours), "tlc_states": r["distinct"]}, path


def daemon_write_events(result, modes, uids, gids, umask):
    """Pairs every FileWrite of a daemon run with what the file-pre-*/file-post-* recorder hooks saw at that path.
    Content is identified by (sha, len); one Reset + one Write per observed write."""
    evs = result["events"]
    out = []
    pre_seen = {}
    pending = None
    for e in evs:
        if e.get("src") == "hook" and e.get("phase") == "end" and e.get("files"):
            nm = e.get("hook", "")
            f = e["files"][0]
            if "file-pre" in nm:
                pre_seen[f["path"]] = f
            elif "file-post" in nm and pending and pending["path"] == f["path"]:
                w = pending
                pending = None
                p = pre_seen.pop(f["path"], None) or {"exists": not w["is_new"]}
                ftype = w["ftype"]
                empty = {"exists": False, "runs": [], "mode": [], "uid": 0, "gid": 0}
                pre = {"account": empty, "pk": empty, "crt": empty}
                if p.get("exists"):
                    pre = dict(pre)
                    pre[ftype] = {"exists": True, "runs": [{"fill": p.get("sha", "?"), "len": p.get("len", 0)}],
                                  "mode": to_bits(p.get("mode", 0)), "uid": p.get("uid", 0), "gid": p.get("gid", 0)}
                def obs(f):
                    return {"exists": bool(f.get("exists")), "runs": [{"fill": f.get("sha", "?"), "len": f.get("len", 0)}] if f.get("exists") else [],
                            "mode": to_bits(f.get("mode", 0)), "uid": f.get("uid", 0), "gid": f.get("gid", 0)}
                seen = obs(f)
                # what the file-post-* hook found the moment it was started
                ret = obs((e.get("files_first") or [f])[0])
                out.append({"e": "Reset", "mode": {k: to_bits(v) for k, v in modes.items()}, "uid": uids, "gid": gids,
                            "umask": to_bits(umask), "pre": pre, "idx": -1})
                out.append({"e": "Write", "type": ftype, "fill": w["sha"], "len": w["len"], "ret": ret, "seen": seen})
        elif e.get("src") == "acmed" and e.get("ev") == "FileWrite":
            pending = e
    return out


def validate_events(tag, groups, labels):
    """groups: list of (owner, [events]). Returns bad [(owner, labels, event)], stats."""
    root = fresh_dir(tag)
    lines, owner = [], []
    for o, evs in groups:
        for e in evs:
            lines.append(e)
            owner.append(o)
    if not lines:
        return [], {"events": 0}, None
    path = os.path.join(root, "storage.ndjson")
    with open(path, "w") as f:
        for e in lines:
            f.write(json.dumps(e) + "\n")
    r = tlc.validate_trace("Trace_Storage", TRACE_CFG % tlc.tla_set(labels), tag.replace("/", "_") + "_tv", path, timeout=1800, heap="8g")
    if r["hard_errors"] or r["unmatched"] is not None:
        raise ToolError("TLC failed on the storage trace: %s unmatched=%s (%s)" % (r["hard_errors"][:2], r["unmatched"], r["out_path"]))
    bad = [(owner[ln - 1], labs, lines[ln - 1]) for ln, labs in r["bad"]]
    return bad, {"events": len(lines), "writes": sum(1 for e in lines if e["e"] == "Write"), "tlc_states": r["distinct"]}, path
