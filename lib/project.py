"""Projections: raw trace events -> the flat, null-free event vocabulary of one spec layer.

Only renaming, filtering and flattening happens here; every judgement is made by the
TLA+ specification that consumes the result.
"""
ACME_PFX = "urn:ietf:params:acme:error:"


def nz(v):
    return "none" if v is None or v == "" else v


def errtype(t):
    if t is None:
        return "about:blank"
    return t[len(ACME_PFX):] if t.startswith(ACME_PFX) else t


def ca_answer(e):
    """(ans, type, rnonce) of a CaReq event."""
    resp = e.get("resp") or {}
    st = resp.get("status")
    if st is None:
        return ("drop_after" if e.get("delivered") else "lost"), "none", "none"
    rn = nz(resp.get("nonce"))
    if 200 <= st < 300:
        return "ok", "none", rn
    t = e.get("resp_type")
    if t == "nonproblem":
        return "nonproblem", "none", rn
    return "error", errtype(t) if t != "about:blank" else "about:blank", rn


def http_layer(events, ep, base_of):
    """events: raw list (one run). Returns the AcmeHttp-layer events of endpoint `ep`."""
    out = []
    pending_poll = {}
    for e in events:
        src, ev = e.get("src"), e.get("ev")
        if src == "acmed":
            if ev == "Sleep" and e.get("kind") == "poll":
                pending_poll[e.get("cert")] = True
                continue
            if e.get("ep") != ep:
                continue
            if ev == "PostBegin":
                out.append({"e": "PostBegin", "url": e["url"], "cell": nz(e.get("cell")),
                            "poll": bool(pending_poll.pop(e.get("cert"), False))})
            elif ev == "HttpPost":
                out.append({"e": "HttpPost", "url": e["url"], "nonce": nz(e.get("nonce")), "cell": nz(e.get("cell"))})
            elif ev == "NonceSet":
                out.append({"e": "NonceSet", "nonce": nz(e.get("nonce"))})
            elif ev == "HttpOk":
                out.append({"e": "HttpOk"})
            elif ev == "HttpErr":
                out.append({"e": "HttpErr", "type": errtype(e.get("type")), "recov": bool(e.get("recoverable"))})
            elif ev == "HttpGiveUp":
                out.append({"e": "HttpGiveUp"})
        elif src == "ca" and e.get("ep") == ep:
            if ev == "CaForget":
                for a in e.get("accounts", []):
                    out.append({"e": "CaForget", "acct": a})
            elif ev == "CaReq":
                ans, typ, rn = ca_answer(e)
                if e["method"] != "POST":
                    out.append({"e": "CaGet", "kind": e["kind"], "rnonce": rn if ans != "lost" else "none", "ans": ans})
                    continue
                p = e.get("post") or {}
                d = e.get("detail") or {}
                probs = p.get("problems") or []
                kind = e["kind"]
                upd_op, upd_acct, upd_key = "none", "none", "none"
                if kind == "newAccount" and d.get("created"):
                    upd_op, upd_acct, upd_key = "create", d["acct"], d["spki"]
                if kind == "keyChange" and d.get("done"):
                    upd_op, upd_acct, upd_key = "rekey", d["acct"], d["inner"]["new_spki"]
                inner = d.get("inner") or {}
                inner_ok = True
                if kind == "keyChange":
                    inner_ok = bool(inner.get("flattened") and inner.get("has_jwk") and not inner.get("has_kid")
                                    and not inner.get("has_nonce") and inner.get("url_same") and inner.get("account_ok")
                                    and inner.get("sig_ok") and inner.get("old_key_ok"))
                eab = d.get("eab")
                out.append({
                    "e": "CaPost", "delivered": bool(e.get("delivered")), "kind": kind,
                    "nonce": nz(p.get("nonce")), "state": p.get("nonce_state", "none"),
                    "url_ok": bool(p.get("url_ok")), "flattened": bool(p.get("flattened")),
                    "alg_ok": p.get("alg") is not None and not any(x.startswith("alg ") for x in probs),
                    "has_jwk": bool(p.get("has_jwk")), "has_kid": bool(p.get("has_kid")),
                    "kid_acct": nz(p.get("kid_acct")), "signer": nz(p.get("signer_spki")),
                    "sig_ok": bool(p.get("sig_ok")) and not any("signature is" in x for x in probs),
                    "content": "%s|%s" % (nz(p.get("url")), nz(p.get("payload_sha"))),
                    "inner_ok": inner_ok, "eab_ok": True if eab is None else bool(eab.get("ok")),
                    "ans": ans, "type": typ, "rnonce": rn,
                    "upd_op": upd_op, "upd_acct": upd_acct, "upd_key": upd_key,
                    "n": e["n"], "fault": nz(e.get("fault")),
                })
    return out
