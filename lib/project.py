"""Projections: raw trace events -> the flat, null-free event vocabulary of one spec layer.

Only renaming, filtering and flattening happens here; every judgement is made by the
TLA+ specification that consumes the result.
"""
ACME_PFX = "urn:ietf:params:acme:error:"
# the error types http::post does not retry (RFC 8555 6.7 minus AcmeError::is_recoverable): the refusal ends the attempt at once
NONRECOVERABLE = {"accountDoesNotExist", "alreadyRevoked", "badCSR", "badPublicKey", "badRevocationReason", "badSignatureAlgorithm", "caa",
                  "compound", "externalAccountRequired", "incorrectResponse", "invalidContact", "orderNotReady", "rejectedIdentifier",
                  "unauthorized", "unsupportedContact", "unsupportedIdentifier", "userActionRequired"}


def nz(v):
    return "none" if v is None or v == "" else v


def errtype(t):
    if t is None:
        return "about:blank"
    return t[len(ACME_PFX):] if t.startswith(ACME_PFX) else t


def ca_answer(e):
    """(ans, type, rnonce) of a CaReq event."""
    resp = e.get("resp") or {}
    st = resp.get("status")
    if st is None:
        return ("drop_after" if e.get("delivered") else "lost"), "none", "none"
    rn = nz(resp.get("nonce"))
    if 200 <= st < 300:
        return "ok", "none", rn
    t = e.get("resp_type")
    if t == "nonproblem":
        return "nonproblem", "none", rn
    return "error", errtype(t) if t != "about:blank" else "about:blank", rn


def http_layer(events, ep, base_of):
    """events: raw list (one run). Returns the AcmeHttp-layer events of endpoint `ep`."""
    out = []
    pending_poll = {}
    cert_ep = {}
    for e in events:
        src, ev = e.get("src"), e.get("ev")
        if src == "acmed":
            if ev == "Sleep" and e.get("kind") == "poll":
                pending_poll[e.get("cert")] = True
                continue
            if ev == "ReqEnd" and cert_ep.get(e.get("cert")) == ep:
                # request_certificate has returned: whatever http::post call the certificate was in is over
                out.append({"e": "AttemptOver", "who": nz(e.get("cert"))})
                continue
            if e.get("ep") != ep:
                continue
            if e.get("cert"):
                cert_ep[e["cert"]] = ep
            if ev == "PostBegin":
                out.append({"e": "PostBegin", "url": e["url"], "cell": nz(e.get("cell")), "who": nz(e.get("cert")),
                            "poll": bool(pending_poll.pop(e.get("cert"), False))})
            elif ev == "HttpPost":
                out.append({"e": "HttpPost", "url": e["url"], "nonce": nz(e.get("nonce")), "cell": nz(e.get("cell"))})
            elif ev == "NonceSet":
                out.append({"e": "NonceSet", "nonce": nz(e.get("nonce"))})
            elif ev == "HttpOk":
                out.append({"e": "HttpOk"})
            elif ev == "HttpErr":
                out.append({"e": "HttpErr", "type": errtype(e.get("type")), "recov": bool(e.get("recoverable"))})
            elif ev == "HttpGiveUp":
                out.append({"e": "HttpGiveUp"})
        elif src == "ca" and e.get("ep") == ep:
            if ev == "CaForget":
                for a in e.get("accounts", []):
                    out.append({"e": "CaForget", "acct": a})
            elif ev == "CaReq":
                ans, typ, rn = ca_answer(e)
                if e["method"] != "POST":
                    out.append({"e": "CaGet", "kind": e["kind"], "rnonce": rn if ans != "lost" else "none", "ans": ans})
                    continue
                p = e.get("post") or {}
                d = e.get("detail") or {}
                probs = p.get("problems") or []
                kind = e["kind"]
                upd_op, upd_acct, upd_key = "none", "none", "none"
                if kind == "newAccount" and d.get("created"):
                    upd_op, upd_acct, upd_key = "create", d["acct"], d["spki"]
                if kind == "keyChange" and d.get("done"):
                    upd_op, upd_acct, upd_key = "rekey", d["acct"], d["inner"]["new_spki"]
                inner = d.get("inner") or {}
                inner_ok = True
                if kind == "keyChange":
                    inner_ok = bool(inner.get("flattened") and inner.get("has_jwk") and not inner.get("has_kid")
                                    and not inner.get("has_nonce") and inner.get("url_same") and inner.get("account_ok")
                                    and inner.get("sig_ok") and inner.get("old_key_ok"))
                eab = d.get("eab")
                out.append({
                    "e": "CaPost", "delivered": bool(e.get("delivered")), "kind": kind,
                    "nonce": nz(p.get("nonce")), "state": p.get("nonce_state", "none"),
                    "url_ok": bool(p.get("url_ok")), "flattened": bool(p.get("flattened")),
                    "alg_ok": p.get("alg") is not None and not any(x.startswith("alg ") for x in probs),
                    "has_jwk": bool(p.get("has_jwk")), "has_kid": bool(p.get("has_kid")),
                    "kid_acct": nz(p.get("kid_acct")), "signer": nz(p.get("signer_spki")),
                    "sig_ok": bool(p.get("sig_ok")) and not any("signature is" in x for x in probs),
                    "content": "%s|%s" % (nz(p.get("url")), nz(p.get("payload_sha"))),
                    "inner_ok": inner_ok, "eab_ok": True if eab is None else bool(eab.get("ok")),
                    "ans": ans, "type": typ, "rnonce": rn,
                    "upd_op": upd_op, "upd_acct": upd_acct, "upd_key": upd_key,
                    "n": e["n"], "fault": nz(e.get("fault")),
                })
    return out


# ----------------------------------------------------------------------------- flow layer
import base64, hashlib, ipaddress, json as _json

SUBJECT_SHORT = {"country_name": "C", "generation_qualifier": "generationQualifier", "given_name": "GN", "initials": "initials",
                 "locality_name": "L", "name": "name", "organization_name": "O", "organizational_unit_name": "OU",
                 "pkcs9_email_address": "emailAddress", "postal_address": "postalAddress", "postal_code": "postalCode",
                 "state_or_province_name": "ST", "street": "street", "surname": "SN", "title": "title"}
KEYTYPE_DISPLAY = {"rsa2048": "rsa2048", "rsa4096": "rsa4096", "ecdsa_p256": "ecdsa-p256", "ecdsa_p384": "ecdsa-p384",
                   "ecdsa_p521": "ecdsa-p521", "ed25519": "ed25519", "ed448": "ed448"}


def cert_id(c):
    name = c.get("name")
    if name is None:
        i0 = c["identifiers"][0]
        name = i0.get("dns") or i0.get("ip")
    for ch in "*:/":
        name = name.replace(ch, "_")
    kt = (c.get("key_type") or "rsa2048").lower().replace("-", "_")
    return "%s_%s" % (name, KEYTYPE_DISPLAY[kt])


def flow_info(c):
    """What the flow specification needs to know about a [[certificate]] table. `canon` fields (the canonical form the
    generator started from) are used when present; otherwise the configured text is taken as already canonical."""
    ids = []
    for i in c["identifiers"]:
        if "dns" in i:
            ids.append({"id": "dns:" + i.get("canon", i["dns"]), "chal": i["challenge"]})
        else:
            ids.append({"id": "ip:" + i.get("canon", i["ip"]), "chal": i["challenge"]})
    kt = (c.get("key_type") or "rsa2048").lower().replace("-", "_")
    digest = (c.get("csr_digest") or "sha256").lower().replace("-", "").replace("_", "")
    # (an EdDSA key signs without a digest; which key signs is decided at run time - kp_reuse may keep a key of
    #  another type than configured -, so the expectation is formed in the specification from the CSR's own key type)
    subj = sorted("%s=%s" % (SUBJECT_SHORT[k], v) for k, v in (c.get("subject_attributes") or {}).items())
    return {"ids": ids, "kp_reuse": bool(c.get("kp_reuse", False)), "subject": subj, "digest": digest, "key_type": kt}


def strip_canon(c):
    """The [[certificate]] table as it goes into the TOML file (harness-only keys removed)."""
    c = dict(c)
    c["identifiers"] = [{k: v for k, v in i.items() if k != "canon"} for i in c["identifiers"]]
    return c


def _b64u(b):
    return base64.urlsafe_b64encode(b).rstrip(b"=").decode()


def key_facts(vc, stat):
    if not stat or not stat.get("exists"):
        return {"exists": False, "ok": False, "spki": "none", "sha": "none"}
    r = vc.call("key_parse", pem=stat.get("content", ""))
    ok = bool(r.get("ok_call")) and r.get("nb_blocks") == 1 and r.get("trailing_len") == 0
    return {"exists": True, "ok": ok, "spki": r.get("spki_sha", "none") if r.get("ok_call") else "none", "sha": stat["sha"]}


def cert_facts(vc, stat):
    if not stat or not stat.get("exists"):
        return {"exists": False, "ok": False, "leaf": "none", "sha": "none"}
    r = vc.call("cert_parse", pem=stat.get("content", ""))
    if not r.get("ok_call"):
        return {"exists": True, "ok": False, "leaf": "none", "sha": stat["sha"]}
    ok = r.get("residue_len", 0) == 0 and r["count"] >= 1 and stat.get("content", "").count("-----BEGIN CERTIFICATE-----") == r["count"]
    return {"exists": True, "ok": ok, "leaf": r["certs"][0]["spki_sha"], "sha": stat["sha"]}


def file_facts_from_disk(vc, path, kind):
    import os
    if not os.path.isfile(path):
        return key_facts(vc, None) if kind == "key" else cert_facts(vc, None)
    data = open(path, "rb").read()
    st = {"exists": True, "sha": hashlib.sha256(data).hexdigest(), "content": data.decode("utf-8", "replace")}
    return key_facts(vc, st) if kind == "key" else cert_facts(vc, st)


def expected_proofs(ident, challenges):
    exp = {"http_file": "none", "http_proof": "none", "dns_proof": "none", "tls_proof": "none", "tls_raw": "none", "tls_name": "none"}
    for c in challenges:
        e = c.get("expect")
        if not e:
            continue
        if c["type"] == "http-01":
            exp["http_file"], exp["http_proof"] = c["token"], e["keyauth"]
        elif c["type"] == "dns-01":
            exp["dns_proof"] = e["dns"]
        elif c["type"] == "tls-alpn-01":
            hx = e["tlsalpn_hex"]
            exp["tls_proof"] = "1.3.6.1.5.5.7.1.31=critical,DER:04:20:" + ":".join(hx[i:i + 2] for i in range(0, len(hx), 2))
            exp["tls_raw"] = e["tlsalpn_b64"]
            if ident["type"] == "ip":
                exp["tls_name"] = ipaddress.ip_address(ident["value"]).reverse_pointer
            else:
                exp["tls_name"] = ident["value"]
    return exp


def digest_of_sigalg(s):
    u = (s or "").upper()
    for d in ("SHA256", "SHA384", "SHA512", "SHA1", "SHA224"):
        if d in u:
            return d.lower()
    return "none"


def flow_layer(events, cid, info, vc, hook_types):
    """events of one scenario -> AcmeFlow-layer events of certificate `cid`.
    hook_types: hook name -> ("chal"|"clean"|"postop"|other, challenge type)."""
    out = []
    last_post_cert = {}
    last_problem = None
    for e in events:
        src, ev = e.get("src"), e.get("ev")
        if src == "drv":
            if ev == "DaemonEnd":
                out.append({"e": "DaemonEnd", "clean": e.get("rc") == 0 and not e.get("hung")})
            elif ev == "Disk" and e.get("cert") == cid:
                out.append({"e": "Disk", "key": e["key"], "cert": e["crt"]})
            continue
        if src == "acmed":
            if ev in ("HttpPost", "HttpGet"):
                last_post_cert[e.get("ep")] = e.get("cert")
                if e.get("cert") == cid:
                    last_problem = None      # a further request: the earlier refusal did not end the attempt
            if ev == "Sleep" and (e.get("cert") == cid or e.get("blocking")):
                out.append({"e": "Sleep", "ms": min(int(e["ms"]), 100000)})
            if e.get("cert") != cid:
                continue
            ms = int(e.get("mono_ns", 0) // 1000000)
            if ev == "AttemptStart":
                out.append({"e": "AttemptStart", "real": ms})
            elif ev == "AttemptEnd":
                out.append({"e": "AttemptEnd", "ok": bool(e["is_success"]), "real": ms})
            elif ev == "ReqEnd":
                # "with the error text": when the request that ended the attempt was refused by the CA with a problem document of a
                # type the client does not retry, the CA's own message (its detail) is part of what is reported
                st_txt = e.get("status") or ""
                out.append({"e": "ReqEnd", "ok": bool(e["is_success"]), "status": st_txt,
                            "carries": last_problem is None or last_problem in st_txt})
                last_problem = None
            elif ev == "KeyPair":
                out.append({"e": "KeyPair", "how": e["how"]})
            elif ev == "FileWrite" and e.get("ftype") in ("pk", "crt"):
                out.append({"e": "FileWrite", "ftype": e["ftype"], "sha": e["sha"]})
            continue
        if src == "ca" and ev == "CaReq" and e.get("method") == "POST" and e.get("delivered"):
            if last_post_cert.get(e.get("ep")) != cid:
                continue
            d = e.get("detail") or {}
            st = (e.get("resp") or {}).get("status")
            kind = e["kind"]
            fault = e.get("fault")
            pb = (e.get("resp") or {}).get("problem")
            last_problem = None
            if pb and isinstance(st, int) and st >= 400 and pb["detail_len"] <= 200 and pb["detail"].isascii() and pb["detail"].strip() \
                    and pb["type"].startswith(ACME_PFX) and pb["type"][len(ACME_PFX):] in NONRECOVERABLE:
                last_problem = pb["detail"]
            if kind == "newOrder" and "identifiers" in d and isinstance(d.get("identifiers"), list):
                ids = []
                for x in d["identifiers"]:
                    ids.append("%s:%s" % (x.get("type"), x.get("value")) if isinstance(x, dict) else "bad")
                out.append({"e": "NewOrder", "ids": ids})
            elif kind == "authz" and st == 200 and "authz" in d and (fault is None or fault.startswith("obj:") or fault in ("ok:no_nonce",)):
                orig = "%s:%s" % (d["ident"]["type"], d["orig"])
                out.append({"e": "Authz", "id": d["authz"], "orig": orig, "status": d["status"],
                            "offered": [c["type"] for c in d["challenges"]], "exp": expected_proofs(d["ident"], d["challenges"])})
            elif kind == "challenge" and "chall" in d and d.get("payload") is not None:
                out.append({"e": "ChalPost", "authz": d["authz"], "chal": d["type"]})
            elif kind == "finalize" and "csr" in d:
                c = d["csr"]
                if c.get("ok_call"):
                    names = ["dns:" + x for x in c["dns"]] + ["ip:" + x for x in c["ips"]]
                    csr = {"spki": c["spki_sha"], "names": names, "subject": sorted("%s=%s" % (a, b) for a, b in c["subject"]),
                           "digest": digest_of_sigalg(c["sig_alg"]), "eddsa": "ED25519" in str(c["sig_alg"]).upper() or "ED448" in str(c["sig_alg"]).upper(),
                           "verify_ok": bool(c["verify_ok"]) and c["other_san"] == 0}
                else:
                    csr = {"spki": "none", "names": [], "subject": [], "digest": "none", "eddsa": False, "verify_ok": False}
                out.append({"e": "Finalize", "csr": csr, "issued": d.get("cert_sha") or "none"})
            elif kind == "cert" and st == 200 and "sha" in d:
                out.append({"e": "CertServed", "sha": d["sha"], "genuine": bool(d["genuine"])})
            continue
        if src == "hook" and ev == "HookRun" and e.get("phase") == "end":
            if (e.get("env") or {}).get("VT_CERT") != cid:
                continue
            role, chal, allowed = (list(hook_types.get(e["hook"], ("other", None, False))) + [False])[:3]
            kv = e.get("kv") or {}
            ended_well = e.get("exit") == 0 and not e.get("signal")      # the recorder kills itself right after this record when told to
            if role != "postop" and not ended_well and not allowed:
                out.append({"e": "HookFailed", "hook": e["hook"]})
            if role in ("chal", "clean") and kv.get("is_clean_hook") in ("true", "false"):
                # (as below: a challenge hook that is also listed for file events runs at those events too, without challenge variables)
                out.append({"e": "ChalHook", "clean": role == "clean", "chal": kv.get("challenge", "none"), "htype": chal,
                            "identifier": kv.get("identifier", "none"), "file_name": nz(kv.get("file_name")),
                            "proof": nz(kv.get("proof")), "raw_proof": nz(kv.get("raw_proof")),
                            "tls_name": nz(kv.get("identifier_tls_alpn")) if chal == "tls-alpn-01" else "none",
                            "is_clean_hook": kv.get("is_clean_hook", "none"), "ok": ended_well or bool(allowed)})
            elif role == "postop" and kv.get("is_success") in ("true", "false"):
                # (a hook that is also listed for file events runs at those events too: there `is_success` does not exist)
                files = {f["path"]: f for f in e.get("files_first") or e.get("files") or []}
                kf = files.get(kv.get("private_key_path"))
                cf = files.get(kv.get("certificate_path"))
                out.append({"e": "PostOp", "is_success": kv.get("is_success") == "true", "status": kv.get("status", ""),
                            "key": key_facts(vc, kf), "cert": cert_facts(vc, cf), "exit": e.get("exit", 0)})
    return out
