"""Strict, scriptable mock ACME CA (RFC 8555) used as environment and as independent observer.

It never imports anything from the code under test. All crypto goes through the
vcrypto helper (OpenSSL). One event per HTTP request is appended to the shared
ndjson trace *under the state mutex and before the reply is sent*.
"""
import base64, hashlib, json, os, socket, ssl, threading, time, random
from http.server import BaseHTTPRequestHandler, ThreadingHTTPServer

ACME_ERR = "urn:ietf:params:acme:error:"
ALL_ACME_ERRORS = [
    "accountDoesNotExist", "alreadyRevoked", "badCSR", "badNonce", "badPublicKey",
    "badRevocationReason", "badSignatureAlgorithm", "caa", "compound", "connection", "dns",
    "externalAccountRequired", "incorrectResponse", "invalidContact", "malformed", "orderNotReady",
    "rateLimited", "rejectedIdentifier", "serverInternal", "tls", "unauthorized",
    "unsupportedContact", "unsupportedIdentifier", "userActionRequired",
]
RECOVERABLE = ["badNonce", "connection", "dns", "malformed", "rateLimited", "serverInternal", "tls"]


def b64u(b):
    return base64.urlsafe_b64encode(b).rstrip(b"=").decode()


def b64u_dec(s):
    if not isinstance(s, str) or "=" in s:
        raise ValueError("not unpadded base64url")
    return base64.urlsafe_b64decode(s + "=" * (-len(s) % 4))


class TraceWriter:
    """O_APPEND, one write(2) per event."""

    def __init__(self, path):
        self.path = path
        self.fd = os.open(path, os.O_WRONLY | os.O_APPEND | os.O_CREAT, 0o644)
        self.seq = 0
        self.lock = threading.Lock()

    def emit(self, obj):
        with self.lock:
            obj["seq"] = self.seq
            self.seq += 1
            os.write(self.fd, (json.dumps(obj, sort_keys=True) + "\n").encode())

    def close(self):
        try:
            os.close(self.fd)
        except OSError:
            pass


class MockCA:
    def __init__(self, name, trace, vc, **o):
        self.name = name
        self.trace = trace
        self.vc = vc
        self.o = dict(
            nonce_on_get=True, problem_style=None, authz_polls=1, ready_polls=1, order_polls=1, chain_len=1,
            cert_lifetime_s=90 * 86400, offered=["http-01", "dns-01", "tls-alpn-01"],
            authz_status={}, authz_perm=None, chall_perm=None, eab_keys={}, require_eab=False,
            delay=None, validate=None, tls=None, seed=0, tos=True, orders_field=True,
            cert_san_override=None, wildcard_field=True, port=0, bind="127.0.0.1", host=None,
            pem_style=None,        # how the certificate chain is written: None (LF, final newline) | "crlf" | "nofinal" | "blank_between" | "text_before"
            same_leaf=False,       # a second order for the same key and names gets the end-entity certificate issued before (only the rest of the chain may differ)
            contact_order="as_sent", # account objects list the contacts as sent | "sorted" | "reversed" (RFC 8555 gives the order no meaning)
            unknown_members=False, # every object carries members RFC 8555 does not define (clients must ignore them)
            detail_style=None,     # (letter, bytes): problem documents carry a long human-readable `detail` made of that letter (any language, any length)
            retry_after=None,      # value of a Retry-After header on the answers to authorization / order polls (RFC 8555 7.5.1)
        )
        self.o.update(o)
        self.mu = threading.RLock()
        self.rng = random.Random(self.o["seed"])
        self.issued = set()
        self.consumed = set()
        self.nonce_ctr = 0
        self.accounts = {}      # id -> dict
        self.by_key = {}        # spki -> id
        self.orders = {}
        self.authzs = {}
        self.challs = {}
        self.certs = {}
        self.ctr = {}
        self.kind_count = {}
        self.script = []
        self.reqno = 0
        self.handshakes = []
        self.forgotten = {}
        self._mk_chain()
        self._start()

    # ---------------------------------------------------------------- setup
    def _mk_chain(self):
        n = max(1, int(self.o["chain_len"]))
        root = self.vc.must("make_ca", cn="verif root %s" % self.name)
        self.chain = [root]
        for i in range(n - 1):
            prev = self.chain[-1]
            self.chain.append(self.vc.must("make_ca", cn="verif int %s %d" % (self.name, i),
                                           issuer_cert=prev["cert_pem"], issuer_key=prev["key_pem"]))
        self.issuer = self.chain[-1]
        # what is served after the leaf: intermediates, issuer first (root omitted when n > 1)
        inter = [c["cert_pem"] for c in reversed(self.chain)]
        self.served_tail = inter[: max(0, n - 1)]

    def _start(self):
        ca = self

        class H(BaseHTTPRequestHandler):
            protocol_version = "HTTP/1.1"

            def log_message(self, *a):
                pass

            def do_GET(self):
                ca._handle(self, "GET")

            def do_HEAD(self):
                ca._handle(self, "HEAD")

            def do_POST(self):
                ca._handle(self, "POST")

        class S(ThreadingHTTPServer):
            daemon_threads = True
            allow_reuse_address = True

            def get_request(self):
                sock, addr = self.socket.accept()
                if ca.o["tls"]:
                    try:
                        sock.settimeout(10)
                        sock = ca._tls_ctx.wrap_socket(sock, server_side=True)
                        ca._hs(True, None)
                    except Exception as ex:  # handshake refused by the client, or garbage
                        ca._hs(False, str(ex))
                        try:
                            sock.close()
                        except Exception:
                            pass
                        raise OSError("tls handshake failed")
                return sock, addr

            def handle_error(self, request, client_address):
                pass

        if self.o["tls"]:
            ctx = ssl.SSLContext(ssl.PROTOCOL_TLS_SERVER)
            ctx.load_cert_chain(self.o["tls"]["cert"], self.o["tls"]["key"])
            self._tls_ctx = ctx
        self.srv = S((self.o["bind"], self.o["port"]), H)
        self.port = self.srv.server_address[1]
        scheme = "https" if self.o["tls"] else "http"
        host = self.o["host"] or "127.0.0.1"
        self.base = "%s://%s:%d" % (scheme, host, self.port)
        self.url = self.base + "/dir"
        self.th = threading.Thread(target=self.srv.serve_forever, kwargs={"poll_interval": 0.05}, daemon=True)
        self.th.start()

    def _hs(self, ok, err):
        with self.mu:
            self.handshakes.append(ok)
            self.trace.emit({"src": "ca", "ev": "CaTls", "ep": self.name, "ok": ok, "error": err})

    def stop(self):
        self.srv.shutdown()
        self.srv.server_close()

    # ---------------------------------------------------------------- helpers
    def _new_id(self, pfx):
        self.ctr[pfx] = self.ctr.get(pfx, 0) + 1
        return "%s%d" % (pfx, self.ctr[pfx])

    def new_nonce(self):
        self.nonce_ctr += 1
        n = "N%s-%d-%s" % (self.name, self.nonce_ctr, b64u(hashlib.sha256(b"%d|%d" % (self.o["seed"], self.nonce_ctr)).digest()[:6]))
        self.issued.add(n)
        return n

    def forget_account(self, acct_id=None):
        """The CA loses an account (answers accountDoesNotExist for its kid from now on)."""
        with self.mu:
            ids = [acct_id] if acct_id else list(self.accounts)
            for i in ids:
                a = self.accounts.pop(i, None)
                if a:
                    self.by_key.pop(a["spki"], None)
                    self.forgotten[i] = a
            self.trace.emit({"src": "ca", "ev": "CaForget", "ep": self.name, "accounts": ids})

    def acct_url(self, i):
        return "%s/acct/%s" % (self.base, i)

    def table(self):
        with self.mu:
            return {i: {k: a[k] for k in ("spki", "thumbprint", "contacts", "eab_kid", "key_type")} for i, a in self.accounts.items()}

    def _fault_for(self, kind):
        c = self.kind_count.get(kind, 0)
        for r in self.script:
            if r.get("kind") not in (kind, "*"):
                continue
            nth = r.get("nth", 1)
            rep = r.get("repeat", 1)
            cc = c if r.get("kind") != "*" else self.reqno
            if nth <= cc < nth + rep:
                return r["fault"]
        return None

    # ---------------------------------------------------------------- JWS
    def _check_jws(self, body, full_url):
        v = {"flattened": False, "alg": None, "has_jwk": False, "has_kid": False, "kid": None,
             "kid_known": None, "url": None, "url_ok": False, "nonce": None, "nonce_state": "none",
             "sig_ok": False, "problems": [], "acct": None, "signer_spki": None, "key_type": None,
             "payload_sha": None, "payload_empty": None, "lead_zero": None, "parse_ok": False}
        try:
            j = json.loads(body)
        except Exception:
            v["problems"].append("body is not JSON")
            return v, None, None
        if not isinstance(j, dict) or set(j.keys()) != {"protected", "payload", "signature"} or not all(isinstance(x, str) for x in j.values()):
            v["problems"].append("not a flattened JWS with exactly protected/payload/signature")
            if not isinstance(j, dict) or not all(k in j for k in ("protected", "payload", "signature")):
                return v, None, None
        else:
            v["flattened"] = True
        try:
            hdr = json.loads(b64u_dec(j["protected"]))
            payload = b64u_dec(j["payload"])
            b64u_dec(j["signature"])
        except Exception as ex:
            v["problems"].append("undecodable JWS part: %s" % ex)
            return v, None, None
        v["parse_ok"] = True
        v["alg"] = hdr.get("alg")
        v["has_jwk"] = "jwk" in hdr
        v["has_kid"] = "kid" in hdr
        v["kid"] = hdr.get("kid")
        v["url"] = hdr.get("url")
        v["url_ok"] = hdr.get("url") == full_url
        v["nonce"] = hdr.get("nonce")
        extra = set(hdr.keys()) - {"alg", "jwk", "kid", "nonce", "url"}
        if extra:
            v["problems"].append("unexpected protected members %s" % sorted(extra))
        n = hdr.get("nonce")
        if n is None:
            v["nonce_state"] = "none"
        elif n in self.consumed:
            v["nonce_state"] = "consumed"
        elif n in self.issued:
            v["nonce_state"] = "fresh"
        else:
            v["nonce_state"] = "unknown"
        v["payload_sha"] = hashlib.sha256(payload).hexdigest()
        v["payload_empty"] = len(payload) == 0
        jwk = None
        acct = None
        if v["has_jwk"] and v["has_kid"]:
            v["problems"].append("both jwk and kid present")
        if v["has_jwk"]:
            jwk = hdr["jwk"]
        elif v["has_kid"]:
            for i, a in self.accounts.items():
                if self.acct_url(i) == hdr["kid"]:
                    acct = i
                    jwk = a["jwk"]
            v["kid_known"] = acct is not None
            v["acct"] = acct
            v["kid_acct"] = acct
            for i, a in self.forgotten.items():
                if self.acct_url(i) == hdr["kid"]:
                    v["kid_acct"] = i
                    jwk = a["jwk"]   # judged against the key the CA held when it dropped the account
        if jwk is not None:
            r = self.vc.call("jws_verify", jwk=jwk, alg=str(hdr.get("alg")), protected=j["protected"],
                             payload=j["payload"], signature=j["signature"])
            if r.get("ok_call"):
                v["sig_ok"] = bool(r["ok"])
                v["problems"] += r["problems"]
                v["signer_spki"] = r["spki_sha"]
                v["key_type"] = r["key_type"]
                v["lead_zero"] = r["lead_zero"]
                v["sig_len"] = r["sig_len"]
            else:
                v["problems"].append("key/signature unusable: %s" % r.get("error"))
        return v, hdr, payload

    # ---------------------------------------------------------------- HTTP
    def _handle(self, h, method):
        d = self.o["delay"]
        path = h.path
        length = int(h.headers.get("Content-Length") or 0)
        body = h.rfile.read(length) if length else b""
        kind, obj = self._route(path)
        if d:
            ms = d(kind, self.rng) if callable(d) else d.get(kind, d.get("*", 0))
            if ms:
                time.sleep(ms / 1000.0)
        with self.mu:
            self.reqno += 1
            self.kind_count[kind] = self.kind_count.get(kind, 0) + 1
            fault = self._fault_for(kind)
            ev = {"src": "ca", "ev": "CaReq", "ep": self.name, "n": self.reqno, "method": method, "path": path,
                  "kind": kind, "obj": obj, "kind_n": self.kind_count[kind], "fault": fault, "delivered": True,
                  "accept": h.headers.get("Accept"), "ctype": h.headers.get("Content-Type"),
                  "user_agent": h.headers.get("User-Agent")}
            try:
                resp = self._process(method, path, kind, obj, body, fault, ev)
            except Exception as ex:  # harness bug: make it visible, never silently pass
                ev["harness_error"] = repr(ex)
                resp = (500, {}, b"harness error")
            status, headers, rbody = resp if resp else (None, None, None)
            ev["resp_type"] = self._resp_type(status, headers, rbody)
            ev["resp"] = {"status": status, "nonce": (headers or {}).get("Replay-Nonce"),
                          "location": (headers or {}).get("Location"),
                          "body_sha": hashlib.sha256(rbody).hexdigest() if rbody is not None else None}
            if (headers or {}).get("Content-Type") == "application/problem+json":
                try:
                    pd = json.loads(rbody)
                    if isinstance(pd, dict) and isinstance(pd.get("type"), str) and isinstance(pd.get("detail"), str):
                        ev["resp"]["problem"] = {"type": pd["type"], "detail": pd["detail"][:300], "detail_len": len(pd["detail"])}
                except Exception:
                    pass
            self.trace.emit(ev)
        if resp is None:
            # dropped connection: no answer at all
            try:
                h.connection.shutdown(socket.SHUT_RDWR)
            except OSError:
                pass
            h.close_connection = True
            return
        try:
            h.send_response(status)
            for k, val in headers.items():
                h.send_header(k, val)
            h.send_header("Content-Length", str(len(rbody)))
            h.send_header("Connection", "close")
            h.end_headers()
            if method != "HEAD":
                h.wfile.write(rbody)
            h.close_connection = True
        except OSError:
            pass

    @staticmethod
    def _resp_type(status, headers, rbody):
        """What kind of error document went out: its type, 'about:blank' (JSON object without
        type) or 'nonproblem' (not a JSON object)."""
        if status is None or 200 <= status < 300:
            return None
        try:
            j = json.loads(rbody)
        except Exception:
            return "nonproblem"
        if not isinstance(j, dict):
            return "nonproblem"
        t = j.get("type")
        if not isinstance(t, str):
            return "about:blank" if t is None else "nonproblem"
        return t

    def _route(self, path):
        p = path.split("?")[0].strip("/").split("/")
        if p == ["dir"]:
            return "directory", None
        table = {"new-nonce": "newNonce", "new-acct": "newAccount", "new-order": "newOrder", "key-change": "keyChange",
                 "revoke-cert": "revokeCert"}
        if len(p) == 1 and p[0] in table:
            return table[p[0]], None
        table2 = {"acct": "account", "order": "order", "authz": "authz", "chall": "challenge", "finalize": "finalize",
                  "cert": "cert", "orders": "orders"}
        if len(p) == 2 and p[0] in table2:
            return table2[p[0]], p[1]
        return "unknown", None

    def _json(self, status, obj, extra=None, nonce=True, ctype="application/json"):
        if self.o["unknown_members"] and isinstance(obj, dict) and 200 <= status < 300:
            obj = dict(obj, **{"x-verif-unknown": {"nested": [1, "two", None]}, "zz-another": "value"})
        hd = {"Content-Type": ctype}
        if nonce:
            hd["Replay-Nonce"] = self.new_nonce()
        if extra:
            hd.update(extra)
        return status, hd, json.dumps(obj).encode()

    def _problem(self, typ, status=400, detail=None, nonce=True):
        doc = {"type": ACME_ERR + typ, "detail": detail or ("scripted %s" % typ), "status": status}
        if self.o["detail_style"]:
            letter, nbytes = self.o["detail_style"]
            # an ASCII lead of 0..3 characters that changes with every answer, so that any byte offset falls inside a letter sooner or later
            lead = "x" * (self.reqno % 4)
            doc["detail"] = doc["detail"] + ": " + lead + letter * max(1, nbytes // len(letter.encode()))
        # optional members of a problem document (RFC 7807 "instance", RFC 8555 6.7.1 "subproblems" - empty, or one entry):
        # the top-level detail is the CA's message in every style
        style = self.o.get("problem_style")
        if style == "subproblems_empty":
            doc["subproblems"] = []
        elif style == "subproblems":
            doc["subproblems"] = [{"type": ACME_ERR + "caa", "detail": "sub-problem text", "identifier": {"type": "dns", "value": "sub.example.org"}}]
        elif style == "instance":
            doc["instance"] = self.base + "/problem/%d" % self.reqno
            doc["title"] = "a title"
        return self._json(status, doc, nonce=nonce, ctype="application/problem+json")

    def _directory(self):
        b = self.base
        d = {"newNonce": b + "/new-nonce", "newAccount": b + "/new-acct", "newOrder": b + "/new-order",
             "revokeCert": b + "/revoke-cert", "keyChange": b + "/key-change"}
        meta = {}
        if self.o["tos"]:
            meta["termsOfService"] = b + "/tos"
        if self.o["require_eab"]:
            meta["externalAccountRequired"] = True
        if meta:
            d["meta"] = meta
        return d

    def _apply_fault_pre(self, fault, ev, is_post=True):
        """Faults that replace normal processing. Returns a response, the marker 'DROP', or None."""
        if fault is None:
            return None
        if fault == "drop_before":
            ev["delivered"] = False
            return "DROP"
        if fault.startswith("acme:"):
            parts = fault.split(":")
            typ = parts[1]
            nonce = "nononce" not in parts and (is_post or "withnonce" in parts)    # (a CA may put a Replay-Nonce on any answer)
            status = 400
            for x in parts[2:]:
                if x.isdigit():
                    status = int(x)
            if typ == "notype":
                return self._json(status, {"detail": "problem without type", "status": status}, nonce=nonce,
                                  ctype="application/problem+json")
            if typ == "unknownType":
                doc = {"type": ACME_ERR + "somethingNew", "detail": "x", "status": status}
                return self._json(status, doc, nonce=nonce, ctype="application/problem+json")
            return self._problem(typ, status, nonce=nonce)
        if fault.startswith("err:"):
            parts = fault.split(":")
            what = parts[1]
            status = int(parts[2]) if len(parts) > 2 else 500
            hd = {"Content-Type": "text/plain"}
            if is_post or "withnonce" in parts:
                hd["Replay-Nonce"] = self.new_nonce()
            body = {"nonjson": b"<html>oops</html>", "empty": b"", "jsonarray": b"[1,2]", "jsonstr": b"\"x\""}.get(what, b"oops")
            return status, hd, body
        return None

    def _process(self, method, path, kind, obj, body, fault, ev):
        full_url = self.base + path
        if method in ("GET", "HEAD"):
            pre = self._apply_fault_pre(fault, ev, is_post=False)
            if pre == "DROP":
                return None
            if pre:
                return pre
            if fault == "drop_after":
                return None
            nonce = self.o["nonce_on_get"]
            if kind == "directory":
                if fault == "ok:malformed_json":
                    return 200, {"Content-Type": "application/json"}, b"{"
                if fault == "ok:missing_fields":
                    return self._json(200, {"newNonce": self.base + "/new-nonce"}, nonce=nonce)
                return self._json(200, self._directory(), nonce=nonce and fault != "ok:no_nonce")
            if kind == "newNonce":
                if fault == "ok:no_nonce":
                    return 204, {}, b""
                if fault == "ok:bad_nonce_header":
                    return 204, {"Replay-Nonce": "bad/nonce=="}, b""
                return 204, {"Replay-Nonce": self.new_nonce(), "Cache-Control": "no-store"}, b""
            return 405, {}, b"method not allowed"

        # ------------- POST
        v, hdr, payload = self._check_jws(body, full_url)
        ev["post"] = v
        pre = self._apply_fault_pre(fault, ev)
        if pre == "DROP":
            return None
        # the request has been delivered: its nonce is spent from now on
        if v["nonce"] is not None:
            self.consumed.add(v["nonce"])
        if pre:
            return pre
        if not v["parse_ok"]:
            return self._problem("malformed", 400, "unparsable JWS")
        if v["nonce_state"] != "fresh":
            return self._problem("badNonce", 400, "nonce %s" % v["nonce_state"])
        if not v["url_ok"]:
            return self._problem("unauthorized", 401, "url mismatch")
        if v["has_kid"] and not v["kid_known"]:
            return self._problem("accountDoesNotExist", 400, "unknown kid")
        if not v["sig_ok"] or not v["flattened"]:
            return self._problem("malformed", 400, "JWS verification error")
        if kind == "newAccount":
            if not v["has_jwk"]:
                return self._problem("malformed", 400, "newAccount needs jwk")
        elif kind == "unknown":
            return self._problem("malformed", 404, "no such resource")
        elif not v["has_kid"]:
            return self._problem("malformed", 400, "kid required")
        try:
            pj = json.loads(payload) if payload else None
        except Exception:
            return self._problem("malformed", 400, "payload is not JSON")
        fn = getattr(self, "_do_" + kind, None)
        if fn is None:
            return self._problem("malformed", 404, "unsupported")
        resp = fn(v, hdr, pj, obj, fault, ev)
        if fault == "drop_after":
            return None
        status, hd, rb = resp
        if fault == "ok:no_nonce":
            hd.pop("Replay-Nonce", None)
        elif fault == "ok:bad_nonce_header":
            hd["Replay-Nonce"] = "bad/nonce=="
        elif fault == "ok:no_location":
            hd.pop("Location", None)
        elif fault == "ok:malformed_json":
            rb = b"{\"status\": "
        elif fault == "ok:missing_fields":
            rb = b"{}"
        elif fault and fault.startswith("ok:status="):
            status = int(fault.split("=")[1])
        return status, hd, rb

    # ---------------------------------------------------------------- resources
    def _acct_obj(self, i):
        a = self.accounts[i]
        shown = list(a["contacts"])
        if self.o["contact_order"] == "sorted":
            shown = sorted(shown, reverse=(shown == sorted(shown)))       # some other order than the one it was given
        elif self.o["contact_order"] == "reversed":
            shown.reverse()
        o = {"status": "valid", "contact": shown, "termsOfServiceAgreed": True}
        if self.o["orders_field"]:
            o["orders"] = "%s/orders/%s" % (self.base, i)
        return o

    def _do_newAccount(self, v, hdr, pj, obj, fault, ev):
        det = {"created": False}
        ev["detail"] = det
        info = self.vc.call("jwk_info", jwk=hdr["jwk"])
        if not info.get("ok_call"):
            return self._problem("badPublicKey", 400, info.get("error"))
        det["jwk_problems"] = info["problems"]
        det["contacts"] = (pj or {}).get("contact")
        det["tos"] = (pj or {}).get("termsOfServiceAgreed")
        det["only_existing"] = (pj or {}).get("onlyReturnExisting")
        spki = info["spki_sha"]
        det["spki"] = spki
        det["thumb"] = info["thumbprint"]
        eab = (pj or {}).get("externalAccountBinding")
        eab_kid = None
        if eab is not None:
            ok, eab_kid, why = self._check_eab(eab, hdr, self.base + "/new-acct")
            det["eab"] = {"ok": ok, "kid": eab_kid, "why": why}
            if not ok:
                return self._problem("unauthorized", 403, "external account binding: %s" % why)
        elif self.o["require_eab"]:
            return self._problem("externalAccountRequired", 403)
        if spki in self.by_key:
            i = self.by_key[spki]
            det["acct"] = i
            det["contacts_after"] = list(self.accounts[i]["contacts"])
            det["accepted"] = True
            return self._json(200, self._acct_obj(i), {"Location": self.acct_url(i)})
        if (pj or {}).get("onlyReturnExisting"):
            return self._problem("accountDoesNotExist", 400)
        i = self._new_id("A")
        self.accounts[i] = {"jwk": hdr["jwk"], "spki": spki, "thumbprint": info["thumbprint"],
                            "contacts": list((pj or {}).get("contact") or []), "eab_kid": eab_kid,
                            "key_type": info["key_type"]}
        self.by_key[spki] = i
        det["created"] = True
        det["acct"] = i
        det["contacts_after"] = list(self.accounts[i]["contacts"])
        det["accepted"] = True
        return self._json(201, self._acct_obj(i), {"Location": self.acct_url(i)})

    def _check_eab(self, eab, outer_hdr, url):
        try:
            if set(eab.keys()) != {"protected", "payload", "signature"}:
                return False, None, "not flattened"
            ph = json.loads(b64u_dec(eab["protected"]))
            kid = ph.get("kid")
            if ph.get("url") != url:
                return False, kid, "url"
            if "nonce" in ph:
                return False, kid, "nonce present"
            if ph.get("alg") not in ("HS256", "HS384", "HS512"):
                return False, kid, "alg"
            if json.loads(b64u_dec(eab["payload"])) != outer_hdr["jwk"]:
                return False, kid, "payload is not the account jwk"
            key = self.o["eab_keys"].get(kid)
            if key is None:
                return False, kid, "unknown kid"
            r = self.vc.call("hmac_verify", key=key, alg=ph["alg"], protected=eab["protected"],
                             payload=eab["payload"], signature=eab["signature"])
            if not (r.get("ok_call") and r.get("ok")):
                return False, kid, "mac"
            return True, kid, None
        except Exception as ex:
            return False, None, "exception %r" % ex

    def _do_account(self, v, hdr, pj, obj, fault, ev):
        i = v["acct"]
        det = {"acct": i, "update": None}
        ev["detail"] = det
        if obj != i:
            return self._problem("unauthorized", 403, "account mismatch")
        if pj and "contact" in pj:
            self.accounts[i]["contacts"] = list(pj["contact"])
            det["update"] = {"contacts": list(pj["contact"])}
        if pj and pj.get("status") == "deactivated":
            det["update"] = {"status": "deactivated"}
        return self._json(200, self._acct_obj(i))

    def _do_keyChange(self, v, hdr, pj, obj, fault, ev):
        i = v["acct"]
        det = {"acct": i, "inner": {}, "done": False, "thumb_before": self.accounts[i]["thumbprint"]}
        ev["detail"] = det
        inn = det["inner"]
        try:
            inn["flattened"] = set(pj.keys()) == {"protected", "payload", "signature"}
            ih = json.loads(b64u_dec(pj["protected"]))
            ip = json.loads(b64u_dec(pj["payload"]))
        except Exception as ex:
            inn["error"] = repr(ex)
            return self._problem("malformed", 400, "inner JWS")
        inn["has_jwk"] = "jwk" in ih
        inn["has_kid"] = "kid" in ih
        inn["has_nonce"] = "nonce" in ih
        inn["url_same"] = ih.get("url") == hdr.get("url")
        inn["alg"] = ih.get("alg")
        inn["account_ok"] = ip.get("account") == self.acct_url(i)
        r = self.vc.call("jws_verify", jwk=ih.get("jwk"), alg=str(ih.get("alg")), protected=pj["protected"],
                         payload=pj["payload"], signature=pj["signature"]) if inn["has_jwk"] else {"ok_call": False, "error": "no jwk"}
        inn["sig_ok"] = bool(r.get("ok_call") and r.get("ok"))
        inn["problems"] = r.get("problems", [r.get("error")])
        old = self.vc.call("jwk_info", jwk=ip.get("oldKey")) if isinstance(ip.get("oldKey"), dict) else {"ok_call": False}
        inn["old_key_ok"] = bool(old.get("ok_call") and old.get("spki_sha") == self.accounts[i]["spki"])
        if not (inn["flattened"] and inn["has_jwk"] and not inn["has_kid"] and not inn["has_nonce"] and inn["url_same"]
                and inn["account_ok"] and inn["sig_ok"] and inn["old_key_ok"]):
            return self._problem("malformed", 400, "key change rejected")
        info = self.vc.call("jwk_info", jwk=ih["jwk"])
        inn["new_spki"] = info["spki_sha"]
        inn["new_thumb"] = info["thumbprint"]
        inn["new_key_type"] = info["key_type"]
        inn["jwk_problems"] = info["problems"]
        if info["spki_sha"] in self.by_key:
            return self._json(409, {"type": ACME_ERR + "malformed", "detail": "key in use"},
                              {"Location": self.acct_url(self.by_key[info["spki_sha"]])}, ctype="application/problem+json")
        a = self.accounts[i]
        self.by_key.pop(a["spki"], None)
        a.update(jwk=ih["jwk"], spki=info["spki_sha"], thumbprint=info["thumbprint"], key_type=info["key_type"])
        self.by_key[a["spki"]] = i
        det["done"] = True
        return self._json(200, self._acct_obj(i))

    def _do_newOrder(self, v, hdr, pj, obj, fault, ev):
        i = v["acct"]
        ids = (pj or {}).get("identifiers")
        det = {"acct": i, "identifiers": ids, "extra_fields": sorted(set((pj or {}).keys()) - {"identifiers"})}
        ev["detail"] = det
        if not isinstance(ids, list) or not ids or not all(isinstance(x, dict) and set(x.keys()) == {"type", "value"} for x in ids):
            return self._problem("malformed", 400, "identifiers")
        oid = self._new_id("O")
        authz_ids = []
        for ident in ids:
            aid = self._new_id("Z")
            val = ident["value"]
            wildcard = ident["type"] == "dns" and val.startswith("*.")
            base = val[2:] if wildcard else val
            st = self.o["authz_status"].get(val, self.o["authz_status"].get("*", "pending"))
            offered = [t for t in self.o["offered"] if not (wildcard and t != "dns-01" and self.o.get("wildcard_dns_only", False))]
            if ident["type"] == "ip":
                offered = [t for t in offered if t != "dns-01"]
            chs = []
            for t in offered:
                cid = self._new_id("C")
                tok = b64u(hashlib.sha256(("%s|%s|%d" % (cid, self.name, self.o["seed"])).encode()).digest()[:24])
                if os.environ.get("VERIF_TOKEN_SHAPES"):
                    # "all tokens": base64url allows `-` and `_` anywhere, also in front and at the end (about one random token in 32 starts with one)
                    lead = ("", "-", "_", "--", "-_", "_-")[self.ctr["C"] % 6]
                    tail = ("", "-", "_")[self.ctr["C"] % 3]
                    tok = lead + tok[len(lead):len(tok) - len(tail)] + tail
                self.challs[cid] = {"id": cid, "type": t, "token": tok, "status": "valid" if st == "valid" else "pending",
                                    "authz": aid, "acct": i}
                chs.append(cid)
            if self.o["chall_perm"]:
                # a permutation of what is offered: nothing is dropped when fewer types apply (IP identifiers)
                perm = [k for k in self.o["chall_perm"] if k < len(chs)]
                chs = [chs[k] for k in perm] + [c for k, c in enumerate(chs) if k not in perm]
            self.authzs[aid] = {"id": aid, "ident": {"type": ident["type"], "value": base}, "wildcard": wildcard,
                                "status": st, "challs": chs, "order": oid, "polls": 0, "triggered": False,
                                "orig": val, "acct": i}
            authz_ids.append(aid)
        perm = self.o["authz_perm"]
        if perm:
            authz_ids = [authz_ids[k] for k in perm if k < len(authz_ids)] + [a for k, a in enumerate(authz_ids) if k not in perm]
        self.orders[oid] = {"id": oid, "acct": i, "identifiers": ids, "authzs": authz_ids, "status": "pending",
                            "polls": 0, "cert": None, "csr": None}
        det["order"] = oid
        det["authzs"] = authz_ids
        return self._json(201, self._order_obj(oid), {"Location": "%s/order/%s" % (self.base, oid)})

    def _order_status(self, oid):
        o = self.orders[oid]
        if o["status"] in ("pending",):
            sts = [self.authzs[a]["status"] for a in o["authzs"]]
            if any(s in ("invalid", "deactivated", "expired", "revoked") for s in sts):
                o["status"] = "invalid"
            elif all(s == "valid" for s in sts):
                o["status"] = "ready"
        return o["status"]

    def _order_obj(self, oid, status_override=None):
        o = self.orders[oid]
        st = status_override or self._order_status(oid)
        d = {"status": st, "expires": "2999-01-01T00:00:00Z", "identifiers": o["identifiers"],
             "authorizations": ["%s/authz/%s" % (self.base, a) for a in o["authzs"]],
             "finalize": "%s/finalize/%s" % (self.base, oid)}
        if st == "valid" and o["cert"]:
            d["certificate"] = "%s/cert/%s" % (self.base, o["cert"])
        return d

    def _expect(self, cid):
        c = self.challs[cid]
        acct = self.accounts.get(c["acct"])
        if not acct:
            return None
        ka = "%s.%s" % (c["token"], acct["thumbprint"])
        dg = hashlib.sha256(ka.encode()).digest()
        return {"keyauth": ka, "dns": b64u(dg), "tlsalpn_hex": dg.hex(), "tlsalpn_b64": b64u(dg)}

    def _authz_obj(self, aid):
        a = self.authzs[aid]
        chs = []
        for cid in a["challs"]:
            c = self.challs[cid]
            d = {"type": c["type"], "url": "%s/chall/%s" % (self.base, cid), "token": c["token"], "status": c["status"]}
            if c["status"] == "valid":
                d["validated"] = "2020-01-01T00:00:00Z"
            if c.get("error"):
                d["error"] = c["error"]
            chs.append(d)
        d = {"identifier": a["ident"], "status": a["status"], "expires": "2999-01-01T00:00:00Z", "challenges": chs}
        if a["wildcard"] and self.o["wildcard_field"]:
            d["wildcard"] = True
        return d

    def _do_authz(self, v, hdr, pj, obj, fault, ev):
        a = self.authzs.get(obj)
        if a is None or a["acct"] != v["acct"]:
            return self._problem("unauthorized", 403, "no such authorization")
        det = {"authz": obj, "ident": a["ident"], "wildcard": a["wildcard"], "orig": a["orig"], "order": a["order"]}
        ev["detail"] = det
        if a["triggered"] and a["status"] == "pending":
            a["polls"] += 1
            if a["polls"] >= self.o["authz_polls"]:
                self._conclude(a)
        det["status"] = a["status"]
        det["challenges"] = [{"id": cid, "type": self.challs[cid]["type"], "token": self.challs[cid]["token"],
                              "status": self.challs[cid]["status"], "expect": self._expect(cid)} for cid in a["challs"]]
        body = self._authz_obj(obj)
        if fault and fault.startswith("obj:status="):
            body["status"] = fault.split("=")[1]
            det["status"] = body["status"]
        return self._json(200, body, self._poll_headers())

    def _poll_headers(self):
        return {"Retry-After": str(self.o["retry_after"])} if self.o["retry_after"] is not None else None

    def _conclude(self, a):
        ok = True
        why = None
        for cid in a["challs"]:
            c = self.challs[cid]
            if c["status"] == "processing":
                if self.o["validate"]:
                    ok, why = self.o["validate"](self, a, c, self._expect(cid))
                c["status"] = "valid" if ok else "invalid"
                if not ok:
                    c["error"] = {"type": ACME_ERR + "incorrectResponse", "detail": str(why), "status": 403}
                self.trace.emit({"src": "ca", "ev": "CaValidate", "ep": self.name, "authz": a["id"], "chall": cid,
                                 "type": c["type"], "ok": ok, "why": why, "ident": a["ident"]})
        a["status"] = "valid" if ok else "invalid"

    def _do_challenge(self, v, hdr, pj, obj, fault, ev):
        c = self.challs.get(obj)
        if c is None or c["acct"] != v["acct"]:
            return self._problem("unauthorized", 403, "no such challenge")
        a = self.authzs[c["authz"]]
        det = {"chall": obj, "type": c["type"], "authz": a["id"], "ident": a["ident"], "wildcard": a["wildcard"],
               "token": c["token"], "payload": pj, "expect": self._expect(obj), "prev_status": c["status"]}
        ev["detail"] = det
        if pj is not None and c["status"] == "pending":
            c["status"] = "processing"
            a["triggered"] = True
            if self.o["authz_polls"] <= 0:
                self._conclude(a)
        d = {"type": c["type"], "url": "%s/chall/%s" % (self.base, obj), "token": c["token"], "status": c["status"]}
        return self._json(200, d, {"Link": "<%s/authz/%s>;rel=\"up\"" % (self.base, a["id"])})

    def _do_order(self, v, hdr, pj, obj, fault, ev):
        o = self.orders.get(obj)
        if o is None or o["acct"] != v["acct"]:
            return self._problem("unauthorized", 403, "no such order")
        if o["status"] == "processing":
            o["polls"] += 1
            if o["polls"] >= self.o["order_polls"]:
                o["status"] = "valid"
        st = self._order_status(obj)
        if st == "ready":
            o["ready_polls"] = o.get("ready_polls", 0) + 1
            if o["ready_polls"] < self.o["ready_polls"]:
                st = "pending"
        so = None
        if fault and fault.startswith("obj:status="):
            so = fault.split("=")[1]
        body = self._order_obj(obj, so or st)
        if fault == "obj:nocert":
            body.pop("certificate", None)
        ev["detail"] = {"order": obj, "status": body["status"], "has_cert_url": "certificate" in body}
        return self._json(200, body, self._poll_headers())

    def _do_finalize(self, v, hdr, pj, obj, fault, ev):
        o = self.orders.get(obj)
        if o is None or o["acct"] != v["acct"]:
            return self._problem("unauthorized", 403, "no such order")
        det = {"order": obj, "identifiers": o["identifiers"], "payload_keys": sorted((pj or {}).keys()), "issued": False}
        ev["detail"] = det
        if self._order_status(obj) != "ready":
            return self._problem("orderNotReady", 403)
        csr = (pj or {}).get("csr")
        info = self.vc.call("csr_parse", csr=csr) if isinstance(csr, str) else {"ok_call": False, "error": "no csr"}
        det["csr"] = info
        if not info.get("ok_call"):
            return self._problem("badCSR", 400, info.get("error"))
        want_dns = sorted(x["value"] for x in o["identifiers"] if x["type"] == "dns")
        want_ip = sorted(x["value"] for x in o["identifiers"] if x["type"] == "ip")
        det["names_match"] = sorted(info["dns"]) == want_dns and sorted(info["ips"]) == want_ip and info["other_san"] == 0
        if not info["verify_ok"] or not det["names_match"]:
            return self._problem("badCSR", 400, "CSR does not match the order")
        acct = self.accounts.get(o["acct"])
        if acct and acct["spki"] == info["spki_sha"]:
            return self._problem("badCSR", 400, "CSR key is the account key")
        kw = {}
        if self.o["cert_san_override"]:
            kw["san_override"] = self.o["cert_san_override"]
        lk = (info["spki_sha"], tuple(want_dns), tuple(want_ip))
        if self.o["same_leaf"] and lk in getattr(self, "_leaves", {}):
            leaf = self._leaves[lk]
        else:
            leaf = self.vc.must("make_leaf", issuer_cert=self.issuer["cert_pem"], issuer_key=self.issuer["key_pem"], csr=csr,
                                not_after_s=int(self.o["cert_lifetime_s"]), cn=want_dns[0] if want_dns else "ip", **kw)
            if not hasattr(self, "_leaves"):
                self._leaves = {}
            self._leaves[lk] = leaf
        cid = self._new_id("X")
        body = leaf["cert_pem"] + "".join(self.served_tail)
        self.certs[cid] = {"pem": body, "order": obj, "spki": leaf["spki_sha"]}
        o["cert"] = cid
        o["csr"] = info
        o["status"] = "processing" if self.o["order_polls"] > 0 else "valid"
        o["polls"] = 0
        det["issued"] = True
        det["cert"] = cid
        det["cert_sha"] = hashlib.sha256(body.encode()).hexdigest()
        det["cert_len"] = len(body)
        return self._json(200, self._order_obj(obj), {"Location": "%s/order/%s" % (self.base, obj)})

    def _do_cert(self, v, hdr, pj, obj, fault, ev):
        c = self.certs.get(obj)
        if c is None or self.orders[c["order"]]["acct"] != v["acct"]:
            return self._problem("unauthorized", 403, "no such certificate")
        body = self._styled(c["pem"]).encode()
        genuine_body = body
        if fault == "ok:nonpem":
            body = b"this is not a certificate\n"
        elif fault == "ok:truncated":
            body = body[: len(body) // 2]
        elif fault == "ok:emptybody":
            body = b""
        elif fault == "ok:blankbody":
            body = b"\n  \n"
        elif fault == "ok:pem_then_garbage":
            body = body + b"-----BEGIN CERTIFICATE-----\nthis is not base64\n-----END CERTIFICATE-----\n"
        elif fault == "ok:other_key":
            # a well-formed chain, but for another public key than the CSR's (the CA mixes up two orders)
            other = self.vc.must("make_leaf", issuer_cert=self.issuer["cert_pem"], issuer_key=self.issuer["key_pem"], key_type="ecdsa_p256",
                                 dns=["mixed-up.example.org"], ips=[])
            body = other["cert_pem"].encode()
        elif fault in ("ok:issuer_first", "ok:other_then_leaf"):
            # every block is genuine and the certificate for the CSR's key is in there - but it is not the first one, which is
            # the one RFC 8555 9.1 makes the end-entity certificate and the one every user of the file reads
            blocks = [b + "-----END CERTIFICATE-----\n" for b in c["pem"].split("-----END CERTIFICATE-----\n") if b.strip()]
            if fault == "ok:issuer_first" and len(blocks) >= 2:
                body = "".join(blocks[1:] + blocks[:1]).encode()
            else:
                other = self.vc.must("make_leaf", issuer_cert=self.issuer["cert_pem"], issuer_key=self.issuer["key_pem"], key_type="ecdsa_p256",
                                     dns=["mixed-up.example.org"], ips=[])
                first = other["cert_pem"].split("-----END CERTIFICATE-----\n")[0] + "-----END CERTIFICATE-----\n"
                body = (first + "".join(blocks)).encode()
        ev["detail"] = {"cert": obj, "order": c["order"], "sha": hashlib.sha256(body).hexdigest(), "len": len(body),
                        "spki": c["spki"], "genuine": body == genuine_body}
        return 200, {"Content-Type": "application/pem-certificate-chain", "Replay-Nonce": self.new_nonce()}, body

    def _styled(self, pem):
        """The same chain, written in another way RFC 7468 / RFC 8555 9.1 allow: the client has to store what it was sent."""
        st = self.o["pem_style"]
        if st == "crlf":
            return pem.replace("\r\n", "\n").replace("\n", "\r\n")
        if st == "nofinal":
            return pem.rstrip("\n")
        if st == "blank_between":
            return pem.replace("-----END CERTIFICATE-----\n-----BEGIN", "-----END CERTIFICATE-----\n\n-----BEGIN")
        if st == "text_before":
            return "subject=verif test chain, issued by the mock CA\n" + pem
        return pem

    def _do_orders(self, v, hdr, pj, obj, fault, ev):
        return self._json(200, {"orders": []})

    def _do_revokeCert(self, v, hdr, pj, obj, fault, ev):
        ev["detail"] = {"revoke": True}
        return self._json(200, {})
