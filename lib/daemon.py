"""Writes acmed configurations and runs the real daemon (feature build) against them."""
import json, os, subprocess, time, signal
from common import ACMED, HOOKREC, ToolError, log


def _val(v):
    if isinstance(v, bool):
        return "true" if v else "false"
    if isinstance(v, int):
        return str(v)
    if isinstance(v, str):
        return json.dumps(v, ensure_ascii=False)
    if isinstance(v, list):
        return "[" + ", ".join(_val(x) for x in v) + "]"
    if isinstance(v, dict):
        return "{ " + ", ".join("%s = %s" % (_key(k), _val(x)) for k, x in v.items()) + " }"
    if isinstance(v, Raw):
        return v.s
    raise TypeError(type(v))


class Raw:
    """A literal TOML value (e.g. 0o640)."""

    def __init__(self, s):
        self.s = s


def _key(k):
    import re
    return k if re.fullmatch(r"[A-Za-z0-9_-]+", k) else json.dumps(k)


def toml_dumps(cfg):
    """cfg: {"include": [...], "global": {...}, "endpoint": [{...}], "rate-limit": [...], "hook": [...],
    "group": [...], "account": [...], "certificate": [...]}"""
    out = []
    for k, v in cfg.items():
        if not isinstance(v, (dict, list)) or (isinstance(v, list) and (not v or not isinstance(v[0], dict))):
            out.append("%s = %s" % (_key(k), _val(v)))
    for k, v in cfg.items():
        if isinstance(v, dict):
            out.append("\n[%s]" % _key(k))
            for kk, vv in v.items():
                out.append("%s = %s" % (_key(kk), _val(vv)))
    for k, v in cfg.items():
        if isinstance(v, list) and v and isinstance(v[0], dict):
            for t in v:
                out.append("\n[[%s]]" % _key(k))
                for kk, vv in t.items():
                    out.append("%s = %s" % (_key(kk), _val(vv)))
    return "\n".join(out) + "\n"


def rec_hook(name, types, exit_seq="0", kv=None, stat=None, stdin=None, stdin_str=None, allow_failure=None,
             stdout=None, stderr=None, extra_args=None):
    """A [[hook]] whose command is the hook recorder."""
    args = ["--hook", name, "--exit-seq", str(exit_seq)]
    for s in stat or []:
        args += ["--stat", s]
    if stdin is not None or stdin_str is not None:
        args.append("--stdin")
    args += extra_args or []
    if kv:
        args.append("--")
        for k, v in kv.items():
            args.append("%s=%s" % (k, v))
    h = {"name": name, "type": list(types), "cmd": HOOKREC, "args": args}
    if stdin is not None:
        h["stdin"] = stdin
    if stdin_str is not None:
        h["stdin_str"] = stdin_str
    if allow_failure is not None:
        h["allow_failure"] = allow_failure
    if stdout is not None:
        h["stdout"] = stdout
    if stderr is not None:
        h["stderr"] = stderr
    return h


CHALLENGE_KV = {"identifier": "{{ identifier }}", "identifier_tls_alpn": "{{ identifier_tls_alpn }}",
                "challenge": "{{ challenge }}", "file_name": "{{ file_name }}", "proof": "{{ proof }}",
                "raw_proof": "{{ raw_proof }}", "is_clean_hook": "{{ is_clean_hook }}"}
FILE_KV = {"file_name": "{{ file_name }}", "file_directory": "{{ file_directory }}", "file_path": "{{ file_path }}"}
POSTOP_KV = {"identifiers": "{{ identifiers | join(',') }}", "key_type": "{{ key_type }}", "status": "{{ status }}",
             "is_success": "{{ is_success }}", "certificate_path": "{{ certificate_path }}",
             "private_key_path": "{{ private_key_path }}"}


def standard_hooks(prefix=""):
    """One recorder hook per hook type, with every documented variable echoed back."""
    hs = []
    for t in ("http-01", "dns-01", "tls-alpn-01"):
        hs.append(rec_hook("%schall-%s" % (prefix, t), ["challenge-" + t], kv=CHALLENGE_KV))
        hs.append(rec_hook("%sclean-%s" % (prefix, t), ["challenge-%s-clean" % t], kv=CHALLENGE_KV))
    for t in ("file-pre-create", "file-post-create", "file-pre-edit", "file-post-edit"):
        hs.append(rec_hook("%s%s" % (prefix, t), [t], kv=FILE_KV, stat=["{{ file_path }}"]))
    hs.append(rec_hook("%spost-operation" % prefix, ["post-operation"], kv=POSTOP_KV,
                       stat=["{{ certificate_path }}", "{{ private_key_path }}"], extra_args=["--content"]))
    return hs


class World:
    def __init__(self, root):
        self.root = root
        self.certs = os.path.join(root, "certs")
        self.accounts = os.path.join(root, "accounts")
        self.conf = os.path.join(root, "acmed.toml")
        self.trace = os.path.join(root, "trace.ndjson")
        self.hookstate = os.path.join(root, "hookstate")
        for d in (self.certs, self.accounts, self.hookstate):
            os.makedirs(d, exist_ok=True)

    def write_config(self, cfg, name=None):
        cfg = dict(cfg)
        g = dict(cfg.get("global") or {})
        g.setdefault("accounts_directory", self.accounts)
        g.setdefault("certificates_directory", self.certs)
        cfg["global"] = g
        p = os.path.join(self.root, name) if name else self.conf
        open(p, "w").write(toml_dumps(cfg))
        return p

    def run(self, max_attempts=1, timeout=120, env=None, root_certs=(), time_scale="0", conf=None, log_level="debug",
            extra_args=(), umask=None):
        e = dict(os.environ)
        e.update({"ACMED_VERIF_TRACE": self.trace, "ACMED_VERIF_TIME_SCALE": str(time_scale),
                  "HOOKREC_STATE": self.hookstate})
        if max_attempts is not None:
            e["ACMED_VERIF_MAX_ATTEMPTS"] = str(max_attempts)
        e.pop("ACMED_VERIF_RUN", None)
        if env:
            e.update(env)
        cmd = [ACMED, "-c", conf or self.conf, "-f", "--no-pid-file", "--log-stderr", "--log-level", log_level]
        for r in root_certs:
            cmd += ["--root-cert", r]
        cmd += list(extra_args)
        t0 = time.time()
        pre = (lambda: os.umask(umask)) if umask is not None else None
        p = subprocess.Popen(cmd, env=e, stdout=subprocess.PIPE, stderr=subprocess.PIPE, text=True, preexec_fn=pre)
        try:
            out, err = p.communicate(timeout=timeout)
            hung = False
        except subprocess.TimeoutExpired:
            p.kill()
            out, err = p.communicate()
            hung = True
        return {"rc": p.returncode, "stderr": err, "stdout": out, "hung": hung, "wall": time.time() - t0}


def probe(name, inp, timeout=120, env=None, fsize_limit=None):
    e = dict(os.environ)
    e["ACMED_VERIF_RUN"] = name
    e.pop("ACMED_VERIF_TRACE", None)
    if env:
        e.update(env)
    try:
        pre = None
        if fsize_limit is not None:
            def pre():
                # the file system refuses to let a file grow beyond the limit: write(2) is cut short, then fails with EFBIG
                import resource, signal
                signal.signal(signal.SIGXFSZ, signal.SIG_IGN)
                resource.setrlimit(resource.RLIMIT_FSIZE, (fsize_limit, fsize_limit))
        p = subprocess.run([ACMED], input=json.dumps(inp), env=e, capture_output=True, text=True, timeout=timeout, preexec_fn=pre)
    except subprocess.TimeoutExpired:
        return {"ok": False, "hung": True}
    res = None
    for line in p.stdout.splitlines():
        line = line.strip()
        if line.startswith("{"):
            try:
                res = json.loads(line)
            except Exception:
                pass
    if res is None:
        pl = p.stderr.splitlines()
        panic = next((" ".join(x.strip() for x in pl[i:i + 2]) for i, x in enumerate(pl) if "panicked at" in x), None)
        return {"ok": False, "crashed": True, "rc": p.returncode, "stderr": p.stderr[-2000:], "panic": panic}
    res["rc"] = p.returncode
    return res
