"""Drives a real tacd: starts it, makes conforming and hostile connections with Python's ssl client, parses what came back."""
import base64, json, os, socket, ssl, subprocess, threading, time
import vcrypto
from common import TACD_DEBUG, TACD_RELEASE

ACME = "acme-tls/1"


def proof_text(digest):
    hx = digest.hex()
    return "1.3.6.1.5.5.7.1.31=critical,DER:04:20:" + ":".join(hx[i:i + 2] for i in range(0, len(hx), 2))


def free_port():
    s = socket.socket()
    s.bind(("127.0.0.1", 0))
    p = s.getsockname()[1]
    s.close()
    return p


class Tacd:
    def __init__(self, workdir, domain, ext, release=False, listener="tcp", source="flag", key_type=None, digest=None, nofile=None, daemon=False):
        self.nofile = nofile
        self.daemon = daemon       # started the way the manual and the shipped hooks do: no -f, the process detaches and writes a pid file
        self.dpid = None
        self.dir = workdir
        os.makedirs(workdir, exist_ok=True)
        self.release = release
        self.listener = listener
        self.domain, self.ext, self.source, self.key_type, self.digest = domain, ext, source, key_type, digest
        # another process can take the port between free_port() and tacd's bind (many checks run side by side):
        # that is the harness's problem, never tacd's - try again elsewhere, and give up as a tool error
        for attempt in range(6):
            self._launch()
            if self.started or self.listener != "tcp":
                break
            err = open(os.path.join(self.dir, "tacd.stderr"), "rb").read().decode("utf-8", "replace")
            if "in use" not in err.lower():
                break
            self.stop()
            if attempt == 5:
                from common import ToolError
                raise ToolError("could not find a free port for tacd (6 attempts): %s" % err[-300:])

    def _launch(self):
        workdir, domain, ext, source, key_type, digest, listener, release = \
            self.dir, self.domain, self.ext, self.source, self.key_type, self.digest, self.listener, self.release
        if listener == "tcp":
            self.port = free_port()
            self.addr = "127.0.0.1:%d" % self.port
        else:
            self.path = os.path.join(workdir, "tacd.sock")
            if os.path.exists(self.path):
                os.unlink(self.path)
            self.addr = "unix:" + self.path
        if self.daemon:
            self.pidfile = os.path.join(workdir, "tacd.pid")
            if os.path.exists(self.pidfile):
                os.unlink(self.pidfile)
            cmd = [TACD_RELEASE if release else TACD_DEBUG, "--pid-file", self.pidfile, "--listen", self.addr]
        else:
            cmd = [TACD_RELEASE if release else TACD_DEBUG, "-f", "--no-pid-file", "--listen", self.addr, "--log-stderr", "--log-level", "debug"]
        stdin = None
        if source == "flag":
            cmd += ["--domain", domain, "--acme-ext", ext]
        elif source == "file":
            df, ef = os.path.join(workdir, "domain.txt"), os.path.join(workdir, "ext.txt")
            open(df, "w").write(domain + "\n")
            open(ef, "w").write("  " + ext + "  \n")
            cmd += ["--domain-file", df, "--acme-ext-file", ef]
        else:
            stdin = (domain + "\n" + ext + "\n").encode()
        if key_type:
            cmd += ["--crt-signature-alg", key_type]
        if digest:
            cmd += ["--crt-digest", digest]
        self.errf = open(os.path.join(workdir, "tacd.stderr"), "wb")
        pre = None
        if self.nofile:
            import resource
            n = self.nofile
            pre = lambda: resource.setrlimit(resource.RLIMIT_NOFILE, (n, n))      # noqa: E731
        self.p = subprocess.Popen(cmd, stdin=subprocess.PIPE if stdin is not None else subprocess.DEVNULL, stdout=subprocess.DEVNULL, stderr=self.errf,
                                  preexec_fn=pre)
        if stdin is not None:
            self.p.stdin.write(stdin)
            self.p.stdin.close()
        self.started = self._wait_listening()

    def _connect(self, timeout=3):
        if self.listener == "tcp":
            return socket.create_connection(("127.0.0.1", self.port), timeout=timeout)
        s = socket.socket(socket.AF_UNIX)
        s.settimeout(timeout)
        s.connect(self.path)
        return s

    def _daemon_pid(self):
        try:
            return int(open(self.pidfile).read().strip())
        except (OSError, ValueError):
            return None

    def _wait_listening(self):
        # generating an RSA 4096 key in a debug build on a busy machine takes many seconds: as long as the process is there it is given
        # a minute to start listening
        t_end = time.time() + 60
        while time.time() < t_end:
            if self.daemon:
                # the launching process ends at once (exit 0 = detached); the service is the process named by the pid file
                rc = self.p.poll()
                if rc not in (None, 0):
                    return False
                self.dpid = self._daemon_pid() or self.dpid
                if rc == 0 and self.dpid:
                    try:
                        os.kill(self.dpid, 0)
                    except OSError:
                        return False          # detached, wrote its pid file and is gone
            elif self.p.poll() is not None:
                return False
            try:
                if self.listener == "unix" and not os.path.exists(self.path):
                    raise OSError
                s = self._connect(0.5)
                s.close()
                return True
            except OSError:
                time.sleep(0.02)
        return False

    def alive(self):
        time.sleep(0.05)
        if self.daemon:
            try:
                os.kill(self.dpid or -1, 0)
                return self.dpid is not None
            except OSError:
                return False
        return self.p.poll() is None

    def exit_status(self):
        return self.p.poll()

    def stop(self):
        if self.daemon and self.dpid:
            try:
                os.kill(self.dpid, 9)
            except OSError:
                pass
        if self.p.poll() is None:
            self.p.kill()
        try:
            self.p.wait(timeout=5)
        except Exception:
            pass
        self.errf.close()

    # ------------------------------------------------------------ connections
    def tls(self, offer, sni="example.org", timeout=4, max12=False):
        """TLS client offering `offer` (list; [] = no ALPN extension). Returns the result record of Tacd.tla."""
        vc = vcrypto.shared()
        res = {"completed": False, "selected": "none", "sans": [], "acme_critical": False, "acme_value": "none", "self_signed": False,
               "valid_now": False, "error": "none", "other_exts": []}
        ctx = ssl.SSLContext(ssl.PROTOCOL_TLS_CLIENT)
        ctx.check_hostname = False
        ctx.verify_mode = ssl.CERT_NONE
        if offer:
            ctx.set_alpn_protocols(offer)
        if max12:
            ctx.maximum_version = ssl.TLSVersion.TLSv1_2
        try:
            raw = self._connect(timeout)
        except OSError as ex:
            res["error"] = "connect: %s" % ex
            return res
        try:
            s = ctx.wrap_socket(raw, server_hostname=sni)
            res["completed"] = True
            res["selected"] = s.selected_alpn_protocol() or "none"
            der = s.getpeercert(binary_form=True)
            s.close()
            if der:
                info = vc.call("cert_parse", der=base64.b64encode(der).decode())
                if info.get("ok_call"):
                    c = info["certs"][0]
                    res["sans"] = ["dns:" + d for d in c["dns"]] + ["ip:" + i for i in c["ips"]] + ["other"] * c["other_san"]
                    res["self_signed"] = bool(c["self_signed"])
                    res["valid_now"] = bool(c["valid_now"])
                    for x in c["extensions"]:
                        if x["oid"] == "1.3.6.1.5.5.7.1.31":
                            res["acme_critical"] = bool(x["critical"])
                            res["acme_value"] = x["value_hex"]
                        else:
                            res["other_exts"].append(x["oid"])
                else:
                    res["error"] = "certificate does not parse: %s" % info.get("error")
        except (ssl.SSLError, OSError) as ex:
            res["error"] = str(ex)[:120]
            try:
                raw.close()
            except Exception:
                pass
        return res

    def hostile(self, kind):
        try:
            if kind == "connect_close":
                self._connect().close()
            elif kind == "connect_reset":
                # the connection is aborted (RST) as soon as it is established: accept() still returns it, but the peer is gone
                s = self._connect()
                if self.listener == "tcp":
                    import struct
                    s.setsockopt(socket.SOL_SOCKET, socket.SO_LINGER, struct.pack("ii", 1, 0))
                s.close()
                time.sleep(0.05)
            elif kind == "garbage":
                s = self._connect()
                s.sendall(os.urandom(300))
                time.sleep(0.05)
                s.close()
            elif kind == "plain_http":
                s = self._connect()
                s.sendall(b"GET / HTTP/1.1\r\nHost: x\r\n\r\n")
                try:
                    s.recv(100)
                except OSError:
                    pass
                s.close()
            elif kind == "tls_no_alpn":
                self.tls([])
            elif kind == "tls_foreign_alpn":
                self.tls(["h2", "http/1.1"])
            elif kind == "abandon_after_hello":
                s = self._connect()
                # a syntactically valid ClientHello prefix produced by a real client, then silence and close
                ctx = ssl.SSLContext(ssl.PROTOCOL_TLS_CLIENT)
                ctx.check_hostname = False
                ctx.verify_mode = ssl.CERT_NONE
                ctx.set_alpn_protocols([ACME])
                inb, outb = ssl.MemoryBIO(), ssl.MemoryBIO()
                o = ctx.wrap_bio(inb, outb, server_hostname="x.example")
                try:
                    o.do_handshake()
                except ssl.SSLWantReadError:
                    pass
                s.sendall(outb.read())
                time.sleep(0.05)
                s.close()
            elif kind == "slow_peer":
                # the first bytes of a real ClientHello, one every three seconds for 33 s, then the peer gives up
                s = self._connect()
                ctx = ssl.SSLContext(ssl.PROTOCOL_TLS_CLIENT)
                ctx.check_hostname = False
                ctx.verify_mode = ssl.CERT_NONE
                ctx.set_alpn_protocols([ACME])
                inb, outb = ssl.MemoryBIO(), ssl.MemoryBIO()
                o = ctx.wrap_bio(inb, outb, server_hostname="slow.example")
                try:
                    o.do_handshake()
                except ssl.SSLWantReadError:
                    pass
                hello = outb.read()
                for k in range(11):
                    try:
                        s.sendall(hello[k:k + 1])
                    except OSError:
                        break
                    time.sleep(3)
                s.close()
            elif kind == "stalled_50":
                socks = []
                for _ in range(50):
                    try:
                        socks.append(self._connect())
                    except OSError:
                        break
                time.sleep(0.1)
                self._stalled = socks      # kept open while the next validation is made
            elif kind == "fd_exhaustion":
                # more idle connections at once than the process has descriptors for: accept() fails (EMFILE) until they go away
                socks = []
                for _ in range((self.nofile or 1024) + 40):
                    try:
                        socks.append(self._connect(1))
                    except OSError:
                        break
                time.sleep(0.5)
                for x in socks:
                    try:
                        x.close()
                    except OSError:
                        pass
                time.sleep(0.5)
            return True
        except OSError:
            return False

    def release_stalled(self):
        for s in getattr(self, "_stalled", []):
            try:
                s.close()
            except Exception:
                pass
        self._stalled = []
