----------------------------- MODULE Trace_Account -----------------------------
(***************************************************************************)
(* Trace validation for Account: one account, followed through a history of *)
(* configuration edits, restarts, renewals on one endpoint at a time and    *)
(* CA-side events.  Keys are identified by their RFC 7638 thumbprint,        *)
(* contacts by the joined list.                                              *)
(***************************************************************************)
EXTENDS Account, Json, IOUtils
Rec == ndJsonDeserialize(IOEnv.TRACE)
VARIABLES l, persisted, loading, snapImg, snapCa, canConv, updC, updK, renewing,
          regd      \* endpoints on which this renewal has already sent an accepted newAccount (and the CA has not disowned it since)
tvars == <<vars, l, persisted, loading, snapImg, snapCa, canConv, updC, updK, renewing, regd>>
Ev == Rec[l]
Is(e) == l <= Len(Rec) /\ Rec[l].e = e
Adv == l' = l + 1 /\ UNCHANGED <<nextKey, hist>>

NoImg == [cur |-> [id |-> NoVal, kt |-> NoVal], past |-> <<>>, ep |-> [e \in Endpoints |-> [url |-> NoVal, kH |-> NoVal, cH |-> NoVal, eH |-> NoVal]]]
(* the image carried by an AccountLoaded / AccountSave event; eH (which binding was registered) is kept by the spec *)
ImgOf(i) == [cur |-> [id |-> i.cur, kt |-> i.kt], past |-> i.past,
             ep |-> [e \in Endpoints |-> [url |-> i.ep[e].url, kH |-> i.ep[e].kH, cH |-> i.ep[e].cH, eH |-> img.ep[e].eH]]]
Same(a, b) == a.cur = b.cur /\ a.past = b.past /\ \A e \in Endpoints : a.ep[e].url = b.ep[e].url /\ a.ep[e].kH = b.ep[e].kH /\ a.ep[e].cH = b.ep[e].cH

TInit == /\ cfg = [c |-> NoVal, kt |-> NoVal, eab |-> NoVal] /\ img = NoImg /\ ca = [e \in Endpoints |-> NoCa]
         /\ nextKey = 0 /\ justified = [e \in Endpoints |-> FALSE] /\ hist = 0 /\ bad = {} /\ l = 1
         /\ persisted = NoImg /\ loading = FALSE /\ snapImg = NoImg /\ snapCa = [e \in Endpoints |-> NoCa]
         /\ canConv = TRUE /\ updC = 0 /\ updK = 0 /\ renewing = NoVal /\ regd = {}

Frame == UNCHANGED <<persisted, loading, snapImg, snapCa, canConv, updC, updK, renewing>>
FrameR == Frame /\ UNCHANGED regd

TReset == /\ Is("Reset") /\ Adv
          /\ cfg' = [c |-> NoVal, kt |-> NoVal, eab |-> NoVal] /\ img' = NoImg /\ ca' = [e \in Endpoints |-> NoCa]
          /\ justified' = [e \in Endpoints |-> FALSE] /\ bad' = {}
          /\ persisted' = NoImg /\ loading' = FALSE /\ snapImg' = NoImg /\ snapCa' = [e \in Endpoints |-> NoCa]
          /\ canConv' = TRUE /\ updC' = 0 /\ updK' = 0 /\ renewing' = NoVal /\ regd' = {}

(* the daemon starts with this configuration of the account *)
TStart == /\ Is("Start") /\ Adv
          /\ cfg' = [c |-> Ev.c, kt |-> Ev.kt, eab |-> Ev.eab] /\ loading' = TRUE /\ bad' = {}
          /\ UNCHANGED <<img, ca, justified, persisted, snapImg, snapCa, canConv, updC, updK, renewing, regd>>

(* account file written.  While loading: update_keys made a new key: the old one must be kept as superseded key *)
TSaved == /\ Is("Saved") /\ Adv
          /\ LET i == ImgOf(Ev.img) IN
             /\ bad' = IF loading /\ persisted # NoImg
                       THEN Chk("C11_Durable", /\ i.past = Append(persisted.past, persisted.cur.id)
                                               /\ i.cur.id # persisted.cur.id
                                               /\ \A e \in Endpoints : i.ep[e].url = persisted.ep[e].url /\ i.ep[e].kH = persisted.ep[e].kH
                                                                        /\ i.ep[e].cH = persisted.ep[e].cH)
                       ELSE {}
             /\ img' = i /\ persisted' = i
          /\ UNCHANGED <<cfg, ca, justified, loading, snapImg, snapCa, canConv, updC, updK, renewing, regd>>

(* Account::load returned: what is in memory must be what was on disk (or what update_keys just saved) *)
TLoaded == /\ Is("Loaded") /\ Adv
           /\ LET i == ImgOf(Ev.img) IN
              /\ bad' = Chk("C11_Durable", persisted # NoImg => Same(i, persisted))
              /\ img' = i
           /\ loading' = FALSE
           /\ UNCHANGED <<cfg, ca, justified, persisted, snapImg, snapCa, canConv, updC, updK, renewing, regd>>

TRenewStart == /\ Is("RenewStart") /\ Adv
               /\ renewing' = Ev.ep /\ canConv' = CanConverge(Ev.ep) /\ snapImg' = img /\ snapCa' = ca
               /\ updC' = 0 /\ updK' = 0 /\ justified' = [e \in Endpoints |-> FALSE] /\ bad' = {} /\ regd' = {}
               /\ UNCHANGED <<cfg, img, ca, persisted, loading>>

TCaNew == /\ Is("CaNewAccount") /\ Adv
          /\ bad' = Chk("C11_CreateOnlyWhen", MayCreate(Ev.ep) /\ Ev.ep \notin regd)      \* ... and once: not again in the same renewal
          /\ ca' = IF Ev.accepted
                   THEN [ca EXCEPT ![Ev.ep] = [exists |-> TRUE, key |-> Ev.thumb, c |-> Ev.c_after, eab |-> Ev.eab]]
                   ELSE ca
          /\ img' = IF Ev.accepted /\ Ev.eab # NoVal THEN [img EXCEPT !.ep[Ev.ep].eH = Ev.eab] ELSE img
          /\ regd' = IF Ev.accepted THEN regd \cup {Ev.ep} ELSE regd
          /\ UNCHANGED <<cfg, justified>> /\ Frame

TCaUnknown == /\ Is("CaUnknown") /\ Adv
              /\ justified' = [justified EXCEPT ![Ev.ep] = TRUE] /\ bad' = {} /\ regd' = regd \ {Ev.ep}
              /\ UNCHANGED <<cfg, img, ca>> /\ Frame

TCaUpdate == /\ Is("CaUpdate") /\ Adv
             /\ ca' = [ca EXCEPT ![Ev.ep].c = Ev.c]
             /\ updC' = updC + 1
             \* one update per changed item: at most one in a renewal, and none when the CA already held the configured contacts when
             \* the renewal began (an update that was accepted is not sent again, whatever the CA's answer looked like)
             /\ bad' = Chk("C11_OneUpdatePerItem", updC = 0 /\ ~(snapCa[Ev.ep].exists /\ snapCa[Ev.ep].c = cfg.c))
             /\ UNCHANGED <<cfg, img, justified, persisted, loading, snapImg, snapCa, canConv, updK, renewing, regd>>

TCaRekey == /\ Is("CaRekey") /\ Adv
            /\ bad' = Chk("C11_RollOverByRecordedKey", Ev.signer = ca[Ev.ep].key /\ Ev.done)
                   \cup Chk("C11_OneUpdatePerItem", updK = 0)
            /\ ca' = IF Ev.done THEN [ca EXCEPT ![Ev.ep].key = Ev.new] ELSE ca
            /\ updK' = updK + 1
            /\ UNCHANGED <<cfg, img, justified, persisted, loading, snapImg, snapCa, canConv, updC, renewing, regd>>

(* the CA answered an account update it could verify with an error of its own (invalidContact ...): this renewal may fail *)
TCaRefused == /\ Is("CaRefused") /\ Adv
              /\ canConv' = FALSE /\ bad' = {}
              /\ UNCHANGED <<cfg, img, ca, justified, persisted, loading, snapImg, snapCa, updC, updK, renewing, regd>>

TCaForget == /\ Is("CaForget") /\ Adv
             /\ ca' = [ca EXCEPT ![Ev.ep] = NoCa] /\ bad' = {} /\ regd' = regd \ {Ev.ep}
             /\ UNCHANGED <<cfg, img, justified>> /\ Frame

TRenewEnd == /\ Is("RenewEnd") /\ Adv
             /\ LET e == Ev.ep IN
                bad' = Chk("C11_InStepAfterRenew", (canConv => Ev.ok) /\ (Ev.ok => (InStep(e) /\ Ev.ktc = cfg.kt)))
                    \* every answer to a roll-over was delivered in these histories: the key on file is the key the CA holds
                    \cup Chk("C11_RollOverByRecordedKey",
                             ((~snapCa[e].exists \/ snapImg.ep[e].url = NoVal \/ snapCa[e].key = snapImg.ep[e].kH)
                              /\ ca[e].exists /\ img.ep[e].url # NoVal) => ca[e].key = img.ep[e].kH)
                    \cup Chk("C11_EndpointsIndependent",
                             \A o \in Endpoints \ {e} : /\ img.ep[o].url = snapImg.ep[o].url /\ img.ep[o].kH = snapImg.ep[o].kH
                                                        /\ img.ep[o].cH = snapImg.ep[o].cH /\ ca[o] = snapCa[o])
             /\ renewing' = NoVal
             /\ UNCHANGED <<cfg, img, ca, justified, persisted, loading, snapImg, snapCa, canConv, updC, updK, regd>>

(* the account file was damaged by the driver, then the daemon was started *)
TCorrupt == /\ Is("CorruptExit") /\ Adv
            /\ bad' = Chk("C11_CorruptRefuses", Ev.rc # 0 /\ Ev.unchanged /\ Ev.requests = 0 /\ ~Ev.hung)
            /\ UNCHANGED <<cfg, img, ca, justified>> /\ FrameR

TNext == TReset \/ TStart \/ TSaved \/ TLoaded \/ TRenewStart \/ TCaNew \/ TCaUnknown \/ TCaUpdate \/ TCaRekey
         \/ TCaForget \/ TCaRefused \/ TRenewEnd \/ TCorrupt
Report == (bad' \cap Enforce # {}) => PrintT(<<"BAD", bad' \cap Enforce, l>>)
TSpec == TInit /\ [][TNext /\ Report]_tvars
Accepted == LET d == TLCGet("stats").diameter IN
            IF d - 1 = Len(Rec) THEN TRUE ELSE PrintT(<<"UNMATCHED", d>>) /\ FALSE
=============================================================================
