----------------------------- MODULE Trace_Storage -----------------------------
(* Trace validation for Storage: replayed histories of the real write_file,      *)
(* each write followed by what was then found on disk.                            *)
EXTENDS Storage, IOUtils

Rec == ndJsonDeserialize(IOEnv.TRACE)
VARIABLE l
tvars == <<vars, l>>
Ev == Rec[l]
Is(e) == l <= Len(Rec) /\ Rec[l].e = e
Adv == l' = l + 1 /\ UNCHANGED hist

S(x) == {x[i] : i \in 1..Len(x)}
FileOf(f) == [exists |-> f.exists, runs |-> f.runs, mode |-> S(f.mode), uid |-> f.uid, gid |-> f.gid, byDaemon |-> FALSE]
ModesOf(m) == [t \in Types |-> S(m[t])]

TInit == /\ cfg = [mode |-> [t \in Types |-> {}], uid |-> [t \in Types |-> Keep], gid |-> [t \in Types |-> Keep], umask |-> {}]
         /\ file = [t \in Types |-> NoFile] /\ last = [t \in Types |-> <<>>] /\ hist = <<>> /\ bad = {} /\ l = 1

TReset == /\ Is("Reset") /\ Adv
          /\ cfg' = [mode |-> ModesOf(Ev.mode), uid |-> Ev.uid, gid |-> Ev.gid, umask |-> S(Ev.umask)]
          /\ file' = [t \in Types |-> FileOf(Ev.pre[t])]
          /\ last' = [t \in Types |-> <<>>] /\ bad' = {}

TWrite == /\ Is("Write") /\ Adv
          /\ Write(Ev.type, [fill |-> Ev.fill, len |-> Ev.len], FileOf(Ev.ret), FileOf(Ev.seen))

(* write_file returned an error (disk full, file size limit): the file is whatever the failed write left, *)
(* and nothing is claimed about it                                                                       *)
TWriteFailed == /\ Is("WriteFailed") /\ Adv
                /\ file' = [file EXCEPT ![Ev.type] = [FileOf(Ev.seen) EXCEPT !.byDaemon = file[Ev.type].byDaemon]]
                /\ last' = [last EXCEPT ![Ev.type] = <<>>] /\ bad' = {} /\ UNCHANGED cfg

TExternal == /\ Is("External") /\ Adv /\ External(Ev.type, FileOf(Ev.seen))

TNext == TReset \/ TWrite \/ TWriteFailed \/ TExternal
Report == (bad' \cap Enforce # {}) => PrintT(<<"BAD", bad' \cap Enforce, l>>)
TSpec == TInit /\ [][TNext /\ Report]_tvars
Accepted == LET d == TLCGet("stats").diameter IN
            IF d - 1 = Len(Rec) THEN TRUE ELSE PrintT(<<"UNMATCHED", d>>) /\ FALSE
=============================================================================
