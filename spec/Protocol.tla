------------------------------ MODULE Protocol ------------------------------
(* The order of ACME requests within one renewal, as a function of what the CA *)
(* has answered so far (RFC 8555 7.1.6 object statuses, acme_proto.rs          *)
(* request_certificate): the client walks the authorizations in the order the  *)
(* CA listed them, answers a challenge only for an authorization it has just   *)
(* seen pending, polls an object until it has seen the status it waits for and *)
(* not once more, finalizes only an order it has seen ready, downloads only    *)
(* from an order it has seen valid after finalizing it, and reports success    *)
(* only after a download.  One action per answered request; the same actions   *)
(* serve TLC's exploration (MC*, which also emits the CA scripts replayed      *)
(* against the real daemon) and the validation of recorded runs                *)
(* (Trace_Protocol).  Not a listed property: check id X03.                     *)
EXTENDS Naturals, Sequences, FiniteSets, TLC, Json
CONSTANTS Enforce, Deviations, MaxPoll, Zs

VARIABLES dir,        \* the directory was fetched in this attempt
          order,      \* the order the CA created for this attempt ("none")
          zlist,      \* its authorizations, in the CA's order
          zfirst,     \* authorization -> status of the first answer
          zlast,      \* authorization -> status of the latest answer
          zch,        \* authorization -> challenges offered by the latest answer
          posted,     \* challenges answered (200)
          oseen,      \* status of the latest answer of an order poll since newOrder / finalize ("unknown")
          ocert,      \* that answer carried a certificate URL
          finalized,  \* the finalize request was accepted
          got,        \* the certificate was downloaded
          bad         \* labels violated by the last step
pvars == <<dir, order, zlist, zfirst, zlast, zch, posted, oseen, ocert, finalized, got, bad>>

Chk(label, F) == IF F THEN {} ELSE {label}
Labels == {"X03_DirectoryFirst", "X03_AuthzFromOrder", "X03_AuthzInOrder", "X03_StopAtValidAuthz", "X03_FirstAnswerDecides",
           "X03_ChallengeOfPendingAuthz", "X03_ChallengeOffered", "X03_ChallengeOnce", "X03_OwnOrder", "X03_OrderAfterAuthzs",
           "X03_StopAtAwaitedStatus", "X03_FinalizeAfterReady", "X03_DownloadAfterValid", "X03_DownloadOnce", "X03_SuccessNeedsDownload"}
Get(f, x, d) == IF x \in DOMAIN f THEN f[x] ELSE d
Range(s) == {s[i] : i \in 1..Len(s)}
Idx(s, x) == CHOOSE i \in 1..Len(s) : s[i] = x
Fresh == /\ dir = FALSE /\ order = "none" /\ zlist = <<>> /\ zfirst = <<>> /\ zlast = <<>> /\ zch = <<>>
         /\ posted = {} /\ oseen = "unknown" /\ ocert = FALSE /\ finalized = FALSE /\ got = FALSE
PInit == Fresh /\ bad = {}

AttemptStart ==
    /\ dir' = FALSE /\ order' = "none" /\ zlist' = <<>> /\ zfirst' = <<>> /\ zlast' = <<>> /\ zch' = <<>>
    /\ posted' = {} /\ oseen' = "unknown" /\ ocert' = FALSE /\ finalized' = FALSE /\ got' = FALSE /\ bad' = {}

Directory(ok) ==
    /\ dir' = (dir \/ ok) /\ bad' = {}
    /\ UNCHANGED <<order, zlist, zfirst, zlast, zch, posted, oseen, ocert, finalized, got>>

(* newOrder may be repeated once after accountDoesNotExist: the latest order counts *)
NewOrder(ok, o, zs) ==
    /\ bad' = Chk("X03_DirectoryFirst", dir)
    /\ IF ok THEN /\ order' = o /\ zlist' = zs /\ zfirst' = <<>> /\ zlast' = <<>> /\ zch' = <<>> /\ posted' = {}
                  /\ oseen' = "unknown" /\ ocert' = FALSE /\ finalized' = FALSE
             ELSE UNCHANGED <<order, zlist, zfirst, zlast, zch, posted, oseen, ocert, finalized>>
    /\ UNCHANGED <<dir, got>>

Authz(ok, z, status, chals) ==
    /\ bad' = Chk("X03_AuthzFromOrder", z \in Range(zlist))
         \cup Chk("X03_AuthzInOrder", z \in Range(zlist) => \A j \in 1..(Idx(zlist, z) - 1) : Get(zlast, zlist[j], "unknown") = "valid")
         \cup Chk("X03_StopAtValidAuthz", Get(zlast, z, "unknown") # "valid")
         \cup Chk("X03_FirstAnswerDecides", z \in DOMAIN zfirst => zfirst[z] = "pending")
    /\ IF ok THEN /\ zlast' = (z :> status) @@ zlast
                  /\ zfirst' = IF z \in DOMAIN zfirst THEN zfirst ELSE (z :> status) @@ zfirst
                  /\ zch' = (z :> chals) @@ zch
             ELSE UNCHANGED <<zlast, zfirst, zch>>
    /\ UNCHANGED <<dir, order, zlist, posted, oseen, ocert, finalized, got>>

Chall(ok, c, z) ==
    /\ bad' = Chk("X03_ChallengeOfPendingAuthz", Get(zlast, z, "unknown") = "pending")
         \cup Chk("X03_ChallengeOffered", c \in Get(zch, z, {}))
         \cup Chk("X03_ChallengeOnce", c \notin posted)
    /\ posted' = IF ok THEN posted \cup {c} ELSE posted
    /\ UNCHANGED <<dir, order, zlist, zfirst, zlast, zch, oseen, ocert, finalized, got>>

Awaited == IF finalized THEN "valid" ELSE "ready"
OrderPoll(ok, o, status, hascert) ==
    /\ bad' = Chk("X03_OwnOrder", o = order)
         \cup Chk("X03_OrderAfterAuthzs", \A z \in Range(zlist) : Get(zlast, z, "unknown") = "valid")
         \cup Chk("X03_StopAtAwaitedStatus", oseen # Awaited)
    /\ IF ok THEN oseen' = status /\ ocert' = hascert ELSE UNCHANGED <<oseen, ocert>>
    /\ UNCHANGED <<dir, order, zlist, zfirst, zlast, zch, posted, finalized, got>>

Finalize(ok, o) ==
    /\ bad' = Chk("X03_OwnOrder", o = order)
         \cup Chk("X03_FinalizeAfterReady", ~finalized /\ oseen = "ready")
    /\ IF ok THEN finalized' = TRUE /\ oseen' = "unknown" /\ ocert' = FALSE ELSE UNCHANGED <<finalized, oseen, ocert>>
    /\ UNCHANGED <<dir, order, zlist, zfirst, zlast, zch, posted, got>>

Cert(ok, o) ==
    /\ bad' = Chk("X03_OwnOrder", o = order)
         \cup Chk("X03_DownloadAfterValid", finalized /\ oseen = "valid" /\ ocert)
         \cup Chk("X03_DownloadOnce", ~got)
    /\ got' = (got \/ ok)
    /\ UNCHANGED <<dir, order, zlist, zfirst, zlast, zch, posted, oseen, ocert, finalized>>

AttemptEnd(success) ==
    /\ bad' = Chk("X03_SuccessNeedsDownload", success => got)
    /\ UNCHANGED <<dir, order, zlist, zfirst, zlast, zch, posted, oseen, ocert, finalized, got>>

-----------------------------------------------------------------------------
(* TLC's exploration: the client of acme_proto.rs against a CA that answers   *)
(* every authorization and order request with any status it likes.  `hist`    *)
(* is the list of those answers (request kind, its number among the requests  *)
(* of that kind, status, how often it is repeated): the script the mock CA    *)
(* plays when the behaviour is replayed against the real daemon.              *)
VARIABLES pc, i, n, na, no, hist
vars == <<pvars, pc, i, n, na, no, hist>>
ZStat == {"pending", "valid", "invalid", "deactivated"}   \* RFC 8555 7.1.6; expired and revoked are treated like these two
OStat == {"pending", "ready", "processing", "valid", "invalid"}
Ch(z) == "c" \o z
Has(d) == d \in Deviations
MCZs == <<"z1", "z2">>
MCInit == PInit /\ pc = "start" /\ i = 1 /\ n = 0 /\ na = 0 /\ no = 0 /\ hist = <<>>
Step(p) == pc' = p
Log(k, m, s, r) == hist' = Append(hist, [kind |-> k, nth |-> m, status |-> s, repeat |-> r, first |-> (pc = "fetch")])
(* a polling loop that never sees what it waits for: the model cuts it after MaxPoll answers; the script repeats the last one *)
Last == n + 1 = MaxPoll
MCStart == pc = "start" /\ AttemptStart /\ Step("dir") /\ UNCHANGED <<i, n, na, no, hist>>
MCDir == pc = "dir" /\ Directory(TRUE) /\ Step("neworder") /\ UNCHANGED <<i, n, na, no, hist>>
MCNewOrder == pc = "neworder" /\ NewOrder(TRUE, "O", Zs) /\ Step("fetch") /\ i' = 1 /\ UNCHANGED <<n, na, no, hist>>
MCFetchDone == pc = "fetch" /\ i > Len(Zs) /\ Step(IF Has("SkipReadyPoll") THEN "finalize" ELSE "pollo") /\ n' = 0
               /\ UNCHANGED <<pvars, i, na, no, hist>>
MCFetch == /\ pc = "fetch" /\ i <= Len(Zs)
           /\ \E s \in ZStat :
                /\ Authz(TRUE, Zs[i], s, {Ch(Zs[i])}) /\ na' = na + 1 /\ Log("authz", na + 1, s, 1)
                /\ CASE s = "valid" -> Step("fetch") /\ i' = i + 1
                     [] s = "pending" \/ Has("AnyFirstStatusGoesOn") -> Step("chall") /\ i' = i
                     [] OTHER -> Step("fail") /\ i' = i
           /\ UNCHANGED <<n, no>>
MCChall == pc = "chall" /\ Chall(TRUE, Ch(Zs[i]), Zs[i]) /\ Step("pollz") /\ n' = 0 /\ UNCHANGED <<i, na, no, hist>>
MCPollZ == /\ pc = "pollz"
           /\ \E s \in ZStat :
                /\ Authz(TRUE, Zs[i], s, {Ch(Zs[i])}) /\ na' = na + 1
                /\ IF s = "valid" /\ ~Has("PollPastValid")
                   THEN Step("fetch") /\ i' = i + 1 /\ n' = 0 /\ Log("authz", na + 1, s, 1)
                   ELSE IF Last THEN Step("fail") /\ i' = i /\ n' = 0 /\ Log("authz", na + 1, s, 40)
                        ELSE Step("pollz") /\ i' = i /\ n' = n + 1 /\ Log("authz", na + 1, s, 1)
           /\ UNCHANGED no
MCPollO == /\ pc = "pollo"
           /\ \E s \in OStat : \E hc \in {s = "valid" /\ finalized} :
                /\ OrderPoll(TRUE, "O", s, hc) /\ no' = no + 1
                /\ IF s = Awaited
                   THEN Step(IF finalized THEN "cert" ELSE "finalize") /\ n' = 0 /\ Log("order", no + 1, s, 1)
                   ELSE IF Last THEN Step("fail") /\ n' = 0 /\ Log("order", no + 1, s, 40)
                        ELSE Step("pollo") /\ n' = n + 1 /\ Log("order", no + 1, s, 1)
           /\ UNCHANGED <<i, na>>
MCFinalize == pc = "finalize" /\ Finalize(TRUE, "O") /\ Step("pollo") /\ n' = 0 /\ UNCHANGED <<i, na, no, hist>>
MCCert == pc = "cert" /\ (IF ocert THEN Cert(TRUE, "O") /\ Step("ok") ELSE UNCHANGED pvars /\ Step("fail"))
          /\ UNCHANGED <<i, n, na, no, hist>>
MCOk == pc = "ok" /\ AttemptEnd(TRUE) /\ Step("done") /\ UNCHANGED <<i, n, na, no, hist>>
MCFail == pc = "fail" /\ AttemptEnd(FALSE) /\ Step("done") /\ UNCHANGED <<i, n, na, no, hist>>
MCNext == MCStart \/ MCDir \/ MCNewOrder \/ MCFetchDone \/ MCFetch \/ MCChall \/ MCPollZ \/ MCPollO \/ MCFinalize
          \/ MCCert \/ MCOk \/ MCFail
MCSpec == MCInit /\ [][MCNext]_vars
NoBad == bad \cap Enforce = {}
Emit == pc = "done" => PrintT(<<"REPLAY", ToJson([script |-> hist, success |-> got, finalized |-> finalized])>>)
(* witnesses (violated on purpose in sanity runs): the exploration reaches a download and a finalization that fails later *)
W_Success == ~(pc = "done" /\ got)
W_FailAfterFinalize == ~(pc = "done" /\ finalized /\ ~got)
=============================================================================
