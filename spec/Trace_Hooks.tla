------------------------------ MODULE Trace_Hooks ------------------------------
(* Trace validation for Hooks: in-code HookCall / FileWrite events and the hook       *)
(* recorder's start/end events of one daemon run, in file order.                      *)
EXTENDS Hooks, IOUtils
Rec == ndJsonDeserialize(IOEnv.TRACE)
VARIABLE l
tvars == <<vars, mc, l>>
Ev == Rec[l]
Is(e) == l <= Len(Rec) /\ Rec[l].e = e
Adv == l' = l + 1 /\ UNCHANGED mc

S(x) == {x[i] : i \in 1..Len(x)}
DefsOf(d) == [i \in 1..Len(d) |-> [name |-> d[i].name, types |-> S(d[i].types), allow |-> d[i].allow]]

TInit == /\ conf = [defs |-> <<>>, groups |-> <<>>, lists |-> <<>>] /\ present = {} /\ call = NoCall
         /\ running = "none" /\ pending = NoWrite /\ owed = 0 /\ bad = {} /\ l = 1 /\ mc = 0
TReset == /\ Is("Reset") /\ Adv
          /\ conf' = [defs |-> DefsOf(Ev.defs), groups |-> Ev.groups, lists |-> Ev.lists]
          /\ present' = S(Ev.present) /\ call' = NoCall /\ running' = "none" /\ pending' = NoWrite /\ owed' = 0 /\ bad' = {}
TCall == Is("Call") /\ Adv /\ BeginCall(Ev.type, Ev.all)
TStart == Is("Start") /\ Adv /\ HookStart(Ev.hook)
TEnd == Is("End") /\ Adv /\ HookEnd(Ev.hook, Ev.exit, Ev.envs, Ev.role, Ev.obs, Ev.exp)
TWrite == Is("Write") /\ Adv /\ FileWritten(Ev.path)
TEndRun == Is("EndRun") /\ Adv /\ EndRunWith(Ev.ok)
TNext == TReset \/ TCall \/ TStart \/ TEnd \/ TWrite \/ TEndRun
Report == (bad' \cap Enforce # {}) => PrintT(<<"BAD", bad' \cap Enforce, l>>)
TSpec == TInit /\ [][TNext /\ Report]_tvars
Accepted == LET d == TLCGet("stats").diameter IN
            IF d - 1 = Len(Rec) THEN TRUE ELSE PrintT(<<"UNMATCHED", d>>) /\ FALSE
=============================================================================
