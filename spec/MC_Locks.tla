------------------------------- MODULE MC_Locks -------------------------------
EXTENDS Locks
T2 == {"t1", "t2"}
T3 == {"t1", "t2", "t3"}
(* sharing patterns: [task -> account], [task -> endpoint] *)
SameSame_A == [t \in T2 |-> "a1"]
SameSame_E == [t \in T2 |-> "e1"]
SameAcc_E == [t \in T2 |-> IF t = "t1" THEN "e1" ELSE "e2"]
SameEp_A == [t \in T2 |-> IF t = "t1" THEN "a1" ELSE "a2"]
Three_A == [t \in T3 |-> IF t = "t3" THEN "a2" ELSE "a1"]
Three_E == [t \in T3 |-> "e1"]
Mixed_A == [t \in T3 |-> IF t = "t3" THEN "a2" ELSE "a1"]
Mixed_E == [t \in T3 |-> IF t = "t1" THEN "e1" ELSE "e2"]
All_A == [t \in T3 |-> "a1"]
All_E == [t \in T3 |-> "e1"]
=============================================================================
