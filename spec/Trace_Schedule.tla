---------------------------- MODULE Trace_Schedule ----------------------------
(* Each line: the parameters of one grid state and the waiting times the real   *)
(* schedule_renewal returned for it (32 evaluations).                            *)
EXTENDS Schedule, IOUtils
Rec == ndJsonDeserialize(IOEnv.TRACE)
VARIABLE l
tvars == <<vars, l>>
Ev == Rec[l]
TInit == MCInit /\ l = 1
TEval == /\ l <= Len(Rec) /\ l' = l + 1
         /\ Evaluate([e |-> Ev.e, d |-> Ev.d, j |-> Ev.j, rel |-> Ev.rel, files |-> Ev.files], Ev.samples)
Report == (bad' \cap Enforce # {}) => PrintT(<<"BAD", bad' \cap Enforce, l>>)
TSpec == TInit /\ [][TEval /\ Report]_tvars
Accepted == LET d == TLCGet("stats").diameter IN
            IF d - 1 = Len(Rec) THEN TRUE ELSE PrintT(<<"UNMATCHED", d>>) /\ FALSE
=============================================================================
