----------------------------- MODULE Trace_Groups -----------------------------
(* Each line: one hook-group graph and what MainEventLoop::new made of it:        *)
(* {"e":"Load","bodies":{"g1":[..],..},"start":[..],"obs":{"kind":..,"hooks":[..]}} *)
EXTENDS Groups, IOUtils
Rec == ndJsonDeserialize(IOEnv.TRACE)
VARIABLE l
tvars == <<vars, l>>
Ev == Rec[l]
TInit == MCInit /\ l = 1
TLoad == /\ l <= Len(Rec) /\ l' = l + 1
         /\ conf' = [bodies |-> Ev.bodies, start |-> Ev.start] /\ phase' = "done"
         /\ bad' = Judge(conf', Ev.obs)
Report == (bad' \cap Enforce # {}) => PrintT(<<"BAD", bad' \cap Enforce, l>>)
TSpec == TInit /\ [][TLoad /\ Report]_tvars
Accepted == LET d == TLCGet("stats").diameter IN
            IF d - 1 = Len(Rec) THEN TRUE ELSE PrintT(<<"UNMATCHED", d>>) /\ FALSE
=============================================================================
