------------------------------- MODULE RateLimit -------------------------------
(***************************************************************************)
(* acmed/src/endpoint.rs::RateLimit (block_until_allowed, request_allowed,  *)
(* prune_log) for ONE endpoint, on a discrete clock.  The log holds the AGE  *)
(* of each admission (ticks since it happened), which keeps the model finite *)
(* without bounding time, so liveness can be checked without a state         *)
(* constraint.  Callers are serialised by the endpoint's write lock (Locks), *)
(* hence one caller at a time here.                                           *)
(***************************************************************************)
EXTENDS Naturals, Sequences, FiniteSets, TLC

CONSTANTS Enforce, Deviations,
          Limits,        \* set of <<n, p>>: at most n requests in any window of p ticks
          MaxLimitP      \* the longest period among Limits (ages beyond it are irrelevant)

VARIABLES ages,          \* sequence of ages of the admissions still remembered
          waiting,       \* a call of block_until_allowed is in progress
          waited,        \* ticks it has been waiting while admission was permitted
          bad
vars == <<ages, waiting, waited, bad>>

Chk(label, F) == IF F THEN {} ELSE {label}
Labels == {"C09_Window", "C09_NoStarvation", "C09_ThroughLimiter"}

CountYounger(a, p) == Cardinality({i \in DOMAIN a : a[i] < p})

(* request_allowed: for every limit, fewer than n admissions in the last p ticks. *)
Allowed(a) == \A l \in Limits : CountYounger(a, l[2]) < l[1]

(* What the code remembers after prune_log.  Correct: entries younger than the    *)
(* longest period.  Deviation: pruned with the shortest one.                       *)
MinP == CHOOSE p \in {l[2] : l \in Limits} : \A l \in Limits : p <= l[2]
(* another way to get it wrong: the limits sorted by count instead of by period, the "first" one taken as the longest *)
PofMaxN == LET l == CHOOSE l \in Limits : \A m \in Limits : m[1] <= l[1] IN l[2]
Prune(a) == LET keep == IF "PruneWithShortest" \in Deviations THEN MinP
                        ELSE IF "PruneByLargestCount" \in Deviations THEN PofMaxN ELSE MaxLimitP
            IN SelectSeq(a, LAMBDA x : x < keep)

Init == ages = <<>> /\ waiting = FALSE /\ waited = 0 /\ bad = {}

Call == /\ ~waiting /\ waiting' = TRUE /\ waited' = 0
        /\ UNCHANGED ages /\ bad' = {}

(* The window guard is evaluated by the specification on ITS OWN record of the     *)
(* admissions (trueAges), not on what the code remembers.                           *)
WindowOK(a) == \A l \in Limits : CountYounger(a, l[2]) <= l[1]

Admit == /\ waiting /\ Allowed(Prune(ages))
         /\ ages' = Append(Prune(ages), 0)
         /\ waiting' = FALSE /\ waited' = 0
         /\ bad' = {}

Tick == /\ ages' = [i \in DOMAIN ages |-> IF ages[i] < MaxLimitP THEN ages[i] + 1 ELSE ages[i]]
        /\ waited' = IF waiting /\ Allowed(Prune(ages)) /\ waited < 3 THEN waited + 1 ELSE waited
        /\ UNCHANGED waiting /\ bad' = {}

Next == Call \/ Admit \/ Tick
Spec == Init /\ [][Next]_vars /\ WF_vars(Tick) /\ WF_vars(Admit)

(* The model keeps every admission for MaxLimitP ticks in a shadow log when a       *)
(* deviation prunes too much; with the correct pruning `ages' is that log.           *)
-----------------------------------------------------------------------------
VARIABLE shadow     \* the specification's own log of admission ages (never over-pruned)
svars == <<vars, shadow>>
SInit == Init /\ shadow = <<>>
SCall == Call /\ UNCHANGED shadow
SAdmit == Admit /\ shadow' = Append(SelectSeq(shadow, LAMBDA x : x < MaxLimitP), 0)
STick == Tick /\ shadow' = [i \in DOMAIN shadow |-> IF shadow[i] < MaxLimitP THEN shadow[i] + 1 ELSE shadow[i]]
SNext == SCall \/ SAdmit \/ STick
SSpec == SInit /\ [][SNext]_svars /\ WF_svars(STick) /\ WF_svars(SAdmit)

(* C09: never more than n admissions within any window of p ticks.                   *)
C09_WindowInv == WindowOK(shadow)
(* C09: a call is answered: requests are not withheld for ever.                      *)
C09_NoStarvation == waiting ~> ~waiting
TypeOK == /\ waiting \in BOOLEAN /\ Len(shadow) <= 64
=============================================================================
