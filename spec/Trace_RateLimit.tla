--------------------------- MODULE Trace_RateLimit ---------------------------
(***************************************************************************)
(* Real-time validation of the limiter: the admission instants are the ones *)
(* the limiter itself pushed into its log (read back through the probe /     *)
(* the RlAdmit event), in units of 100 microseconds since process start.     *)
(* The window guard is evaluated on those instants, so scheduling jitter of  *)
(* the test machine cannot raise a false alarm: the (n+1)-th admission is    *)
(* decided at an instant t1 <= pushed with t1 - p >= the n-th previous        *)
(* pushed instant.                                                            *)
(***************************************************************************)
EXTENDS Integers, Sequences, FiniteSets, TLC, Json, IOUtils

CONSTANTS Enforce
VARIABLES limits, log, credits, bound, bad, l,
          fresh     \* the endpoint's latest admission has not been used by a request yet
tvars == <<limits, log, credits, bound, bad, l, fresh>>

Rec == ndJsonDeserialize(IOEnv.TRACE)
Ev == Rec[l]
Is(e) == l <= Len(Rec) /\ Rec[l].e = e
Adv == l' = l + 1
Chk(label, F) == IF F THEN {} ELSE {label}
Max(a, b) == IF a > b THEN a ELSE b

TInit == limits = <<>> /\ log = <<>> /\ credits = 0 /\ bound = 0 /\ bad = {} /\ l = 1 /\ fresh = FALSE

(* limits: sequence of [n, p]; bound: how long after the earliest permitted instant a call may return *)
TReset == /\ Is("Reset") /\ Adv
          /\ limits' = Ev.limits /\ bound' = Ev.bound /\ log' = <<>> /\ credits' = 0 /\ bad' = {} /\ fresh' = FALSE

InWindow(lg, t, p) == Cardinality({i \in DOMAIN lg : lg[i] > t - p})
WindowOK(lg, t) == \A k \in DOMAIN limits : InWindow(lg, t, limits[k].p) <= limits[k].n

(* the earliest instant >= call at which request_allowed can be true, given the log *)
Earliest(call) ==
    LET m == Len(log)
        need(k) == IF m >= limits[k].n /\ limits[k].n > 0 THEN log[m - limits[k].n + 1] + limits[k].p ELSE call
        RECURSIVE mx(_)
        mx(k) == IF k = 0 THEN call ELSE Max(need(k), mx(k - 1))
    IN mx(Len(limits))

TAdmit ==
    /\ Is("Admit") /\ Adv
    /\ LET lg == Append(log, Ev.t) IN
       /\ log' = lg
       /\ bad' = Chk("C09_Window", WindowOK(lg, Ev.t))
              \cup Chk("C09_NoStarvation", Ev.judge_wait => (Ev.ret - Earliest(Ev.call) <= bound))
    /\ credits' = credits + 1 /\ fresh' = TRUE
    /\ UNCHANGED <<limits, bound>>

(* a call that never came back within the probe's time-out *)
TStarved == /\ Is("Starved") /\ Adv
            /\ bad' = Chk("C09_NoStarvation", FALSE)
            /\ UNCHANGED <<limits, log, credits, bound, fresh>>

(* the daemon hands a request to the network (the endpoint is held exclusively from the admission on): the instant the limiter *)
(* logged for it is the instant it leaves - nothing else was sent on that endpoint in between.  An admission taken early and   *)
(* used later puts requests closer together on the wire than the log says.                                                    *)
TSend == /\ Is("Send") /\ Adv
         /\ bad' = Chk("C09_SentWhenAdmitted", fresh)
         /\ fresh' = FALSE
         /\ UNCHANGED <<limits, log, credits, bound>>

(* the CA saw a request on this endpoint: it must have been let through by the limiter *)
TRequest == /\ Is("Request") /\ Adv
            /\ bad' = Chk("C09_ThroughLimiter", credits > 0)
            /\ credits' = IF credits > 0 THEN credits - 1 ELSE 0
            /\ UNCHANGED <<limits, log, bound, fresh>>

TNext == TReset \/ TAdmit \/ TStarved \/ TRequest \/ TSend
Report == (bad' \cap Enforce # {}) => PrintT(<<"BAD", bad' \cap Enforce, l>>)
TSpec == TInit /\ [][TNext /\ Report]_tvars
Accepted == LET d == TLCGet("stats").diameter IN
            IF d - 1 = Len(Rec) THEN TRUE ELSE PrintT(<<"UNMATCHED", d>>) /\ FALSE
=============================================================================
