----------------------------- MODULE DefaultHooks -----------------------------
(***************************************************************************)
(* The hook groups shipped in acmed/config/default_hooks.toml, as the       *)
(* manual (acmed.toml(5)) describes them, acting on a small world: proof    *)
(* files under HTTP_ROOT, the tacd responder (process, pid file, listening   *)
(* address or socket) and git repositories of the storage directories.       *)
(* A conforming CA validates: http-01 by reading the documented file,        *)
(* tls-alpn-01 by an acme-tls/1 handshake with the documented address.        *)
(***************************************************************************)
EXTENDS Naturals, Sequences, FiniteSets, TLC

CONSTANTS Enforce, Deviations, MaxIssuances

VARIABLES group, git, issuance, stage, proofFile, responder, pidFile, sock, stale, committed, stored, bad
vars == <<group, git, issuance, stage, proofFile, responder, pidFile, sock, stale, committed, stored, bad>>
Chk(label, F) == IF F THEN {} ELSE {label}
Labels == {"C20_ValidationSucceeds", "C20_NoLeftovers", "C20_RepeatWorks", "C20_GitRecordsEveryFile"}

Groups == {"http-01-echo", "tls-alpn-01-tacd-tcp", "tls-alpn-01-tacd-unix"}

-----------------------------------------------------------------------------
(* Guards on what is observed (shared with Trace_DefaultHooks).                *)
(* w: [proofs, pids, socks, live]: numbers of proof files, pid files, sockets and live responders found *)
Clean(w) == w.proofs = 0 /\ w.pids = 0 /\ w.socks = 0 /\ w.live = 0
JudgeValidation(ok) == Chk("C20_ValidationSucceeds", ok)
JudgeAttempt(ok) == Chk("C20_RepeatWorks", ok)
JudgeAfterRun(w, gitOn, files) ==
         Chk("C20_NoLeftovers", Clean(w))
    \cup Chk("C20_GitRecordsEveryFile", gitOn => \A i \in 1..Len(files) : files[i].committed)

-----------------------------------------------------------------------------
(* Model: the effect of the shipped hooks.                                      *)
Init == /\ group \in Groups /\ git \in BOOLEAN /\ issuance = 1 /\ stage = "challenge"
        /\ proofFile = FALSE /\ responder = FALSE /\ pidFile = FALSE /\ sock = FALSE /\ stale = FALSE
        /\ committed = {} /\ stored = {} /\ bad = {}

(* challenge hooks of the group *)
Challenge ==
    /\ stage = "challenge"
    /\ IF group = "http-01-echo"
       THEN /\ proofFile' = TRUE /\ UNCHANGED <<responder, pidFile, sock, stale>>        \* mkdir, echo > file, chmod
       ELSE LET canListen == /\ ~(group = "tls-alpn-01-tacd-tcp" /\ "TcpListenBarePort" \in Deviations)
                             /\ ~(group = "tls-alpn-01-tacd-unix" /\ stale)            \* bind fails on a socket left behind
            IN /\ responder' = canListen /\ pidFile' = canListen
               /\ sock' = IF group = "tls-alpn-01-tacd-unix" THEN TRUE ELSE sock
               /\ UNCHANGED <<proofFile, stale>>
    /\ stage' = "validate" /\ bad' = {}
    /\ UNCHANGED <<group, git, issuance, committed, stored>>

(* the CA validates: the proof must be reachable at the documented place *)
Validate ==
    /\ stage = "validate"
    /\ bad' = JudgeValidation(IF group = "http-01-echo" THEN proofFile ELSE responder)
    /\ stage' = "clean"
    /\ UNCHANGED <<group, git, issuance, proofFile, responder, pidFile, sock, stale, committed, stored>>

(* clean hooks: rm the proof / pkill -F pidfile, rm pidfile (and the socket) *)
CleanUp ==
    /\ stage = "clean"
    /\ proofFile' = FALSE /\ responder' = FALSE /\ pidFile' = FALSE
    /\ IF "UnixSocketLeftBehind" \in Deviations THEN (sock' = sock /\ stale' = sock) ELSE (sock' = FALSE /\ stale' = FALSE)
    /\ stage' = "store" /\ bad' = {}
    /\ UNCHANGED <<group, git, issuance, committed, stored>>

(* key and certificate are stored; the git group commits each file *)
Store ==
    /\ stage = "store"
    /\ stored' = stored \cup {"key", "crt"}
    /\ committed' = IF git THEN committed \cup {"key", "crt"} ELSE committed
    /\ stage' = "done"
    /\ bad' = JudgeAttempt(TRUE)
    /\ UNCHANGED <<group, git, issuance, proofFile, responder, pidFile, sock, stale>>

AfterRun ==
    /\ stage = "done"
    /\ bad' = JudgeAfterRun([proofs |-> IF proofFile THEN 1 ELSE 0, pids |-> IF pidFile THEN 1 ELSE 0,
                             socks |-> IF sock THEN 1 ELSE 0, live |-> IF responder THEN 1 ELSE 0],
                            git, <<[committed |-> (git => stored \subseteq committed)]>>)
    /\ IF issuance < MaxIssuances THEN issuance' = issuance + 1 /\ stage' = "challenge"
       ELSE issuance' = issuance /\ stage' = "end"
    /\ UNCHANGED <<group, git, proofFile, responder, pidFile, sock, stale, committed, stored>>

Next == Challenge \/ Validate \/ CleanUp \/ Store \/ AfterRun
Spec == Init /\ [][Next]_vars
NoBad == bad \cap Enforce = {}
=============================================================================
