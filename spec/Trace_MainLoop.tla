---------------------------- MODULE Trace_MainLoop ----------------------------
(* The per-certificate scheduler events of recorded daemon runs, in file order;   *)
(* Reset separates daemon processes.  Times are whole seconds.                    *)
EXTENDS MainLoop, Json, IOUtils
Rec == ndJsonDeserialize(IOEnv.TRACE)
VARIABLE l
tvars == <<vars, l>>
Ev == Rec[l]
Is(e) == l <= Len(Rec) /\ Rec[l].e = e
Adv == l' = l + 1
TInit == st = <<>> /\ bad = {} /\ l = 1
TReset == Is("Reset") /\ Adv /\ st' = <<>> /\ bad' = {}
TNext == \/ TReset
         \/ (Is("AttemptStart") /\ Adv /\ AttemptStart(Ev.c))
         \/ (Is("Scheduled") /\ Adv /\ Scheduled(Ev.c, Ev.s))
         \/ (Is("SchedErr") /\ Adv /\ SchedErr(Ev.c))
         \/ (Is("Sleep") /\ Adv /\ Sleep(Ev.c, Ev.kind, Ev.s))
         \/ (Is("ReqStart") /\ Adv /\ ReqStart(Ev.c))
         \/ (Is("ReqEnd") /\ Adv /\ ReqEnd(Ev.c, Ev.ok))
         \/ (Is("AttemptEnd") /\ Adv /\ AttemptEnd(Ev.c, Ev.ok))
Report == (bad' \cap Enforce # {}) => PrintT(<<"BAD", bad' \cap Enforce, l>>)
TSpec == TInit /\ [][TNext /\ Report]_tvars
Accepted == LET d == TLCGet("stats").diameter IN
            IF d - 1 = Len(Rec) THEN TRUE ELSE PrintT(<<"UNMATCHED", d>>) /\ FALSE
=============================================================================
