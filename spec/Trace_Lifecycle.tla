---------------------------- MODULE Trace_Lifecycle ----------------------------
EXTENDS Lifecycle, IOUtils
Rec == ndJsonDeserialize(IOEnv.TRACE)
VARIABLE l
tvars == <<vars, l>>
Ev == Rec[l]
TInit == MCInit /\ l = 1
TEval == /\ l <= Len(Rec) /\ l' = l + 1
         /\ Evaluate([daemon |-> Ev.daemon, mode |-> Ev.mode, pidopt |-> Ev.pidopt, input |-> Ev.input], Ev.obs)
Report == (bad' \cap Enforce # {}) => PrintT(<<"BAD", bad' \cap Enforce, l>>)
TSpec == TInit /\ [][TEval /\ Report]_tvars
Accepted == LET d == TLCGet("stats").diameter IN
            IF d - 1 = Len(Rec) THEN TRUE ELSE PrintT(<<"UNMATCHED", d>>) /\ FALSE
=============================================================================
