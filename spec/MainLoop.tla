------------------------------ MODULE MainLoop ------------------------------
(***************************************************************************)
(* Beyond the listed properties: the scheduler of acmed                     *)
(* (acmed/src/main_event_loop.rs::run and renew_certificate).  Every         *)
(* certificate is one task that for ever goes through                        *)
(*                                                                         *)
(*   start -> (schedule_renewal: Ok(wait) | Err -> back-off -> again)        *)
(*         -> sleep(wait) -> request_certificate -> post-operation hooks     *)
(*         -> [pause after a failure] -> start                               *)
(*                                                                         *)
(* and the tasks of different certificates interleave freely.  The           *)
(* back-off after a scheduling error follows the table 60 s, 10 min,         *)
(* 100 min, 1 day (the last entry repeated) and starts again with each       *)
(* round; the pause after a failed request is DEFAULT_RENEW_FAIL_WAIT_SEC.    *)
(*                                                                         *)
(* One action per event the instrumented daemon emits for a certificate       *)
(* (AttemptStart, Scheduled, SchedErr, Sleep(kind), ReqStart, ReqEnd,        *)
(* AttemptEnd); Trace_MainLoop binds them to recorded runs.                   *)
(***************************************************************************)
EXTENDS Naturals, Sequences, FiniteSets, TLC

CONSTANTS Enforce, Deviations,
          Certs,        \* certificate ids (model checking)
          MaxErrs       \* scheduling errors in a row the environment may produce (model checking)

VARIABLES st,           \* [cert -> [phase, errs, due, ok]]
          bad
vars == <<st, bad>>
Chk(label, F) == IF F THEN {} ELSE {label}
Labels == {"X02_OneRoundAtATime", "X02_BackoffTable", "X02_SleepsAsScheduled", "X02_RequestOnlyWhenDue",
           "X02_ReportMatches", "X02_PauseAfterFailure", "X02_NoPauseAfterSuccess"}

Backoff == <<60, 600, 6000, 86400>>          \* seconds
BackoffS(k) == Backoff[IF k + 1 > Len(Backoff) THEN Len(Backoff) ELSE k + 1]     \* k = errors so far in this round; times are in whole seconds (TLC integers are 32-bit)
FailWaitS == 60

Fresh == [phase |-> "idle", errs |-> 0, due |-> 0, ok |-> FALSE]
Known(c) == c \in DOMAIN st
Of(c) == IF Known(c) THEN st[c] ELSE Fresh
Set(c, r) == st' = (c :> r) @@ st

(* phases: idle | sched | erred | wait | due | req | report | cool *)
AttemptStart(c) ==
    /\ bad' = Chk("X02_OneRoundAtATime", Of(c).phase \in {"idle"})
                \cup Chk("X02_PauseAfterFailure", Of(c).phase # "cool")
    /\ Set(c, [Of(c) EXCEPT !.phase = "sched", !.errs = 0])

Scheduled(c, ms) ==
    /\ bad' = Chk("X02_OneRoundAtATime", Of(c).phase = "sched")
    /\ Set(c, [Of(c) EXCEPT !.phase = "wait", !.due = ms])

SchedErr(c) ==
    /\ bad' = Chk("X02_OneRoundAtATime", Of(c).phase = "sched")
    /\ Set(c, [Of(c) EXCEPT !.phase = "erred"])

Sleep(c, kind, ms) ==
    CASE kind = "sched_backoff" ->
           /\ bad' = Chk("X02_BackoffTable", Of(c).phase = "erred" /\ ms = BackoffS(Of(c).errs))
           /\ Set(c, [Of(c) EXCEPT !.phase = "sched", !.errs = @ + 1])
      [] kind = "schedule" ->
           /\ bad' = Chk("X02_SleepsAsScheduled", Of(c).phase = "wait" /\ ms = Of(c).due)
           /\ Set(c, [Of(c) EXCEPT !.phase = "due"])
      [] kind = "renew_fail" ->
           /\ bad' = Chk("X02_PauseAfterFailure", Of(c).phase = "cool" /\ ms >= 1)
                       \cup Chk("X02_NoPauseAfterSuccess", Of(c).phase # "idle")
           /\ Set(c, [Of(c) EXCEPT !.phase = "idle"])
      [] OTHER -> /\ bad' = {} /\ UNCHANGED st          \* sleeps inside the request (polling, retries, rate limiter)

ReqStart(c) ==
    /\ bad' = Chk("X02_RequestOnlyWhenDue", Of(c).phase = "due")
    /\ Set(c, [Of(c) EXCEPT !.phase = "req"])

ReqEnd(c, ok) ==
    /\ bad' = Chk("X02_OneRoundAtATime", Of(c).phase = "req")
    /\ Set(c, [Of(c) EXCEPT !.phase = "report", !.ok = ok])

AttemptEnd(c, ok) ==
    /\ bad' = Chk("X02_ReportMatches", Of(c).phase = "report" /\ ok = Of(c).ok)
    /\ Set(c, [Of(c) EXCEPT !.phase = IF ok THEN "idle" ELSE "cool"])

-----------------------------------------------------------------------------
(* Model checking: the tasks as the code runs them (with named departures), any interleaving. *)
MCInit == st = [c \in Certs |-> Fresh] /\ bad = {}
Task(c) ==
    LET s == st[c] IN
    \/ s.phase = "idle" /\ AttemptStart(c)
    \/ s.phase = "sched" /\ (\E w \in {0, 5} : Scheduled(c, w))
    \/ s.phase = "sched" /\ s.errs < MaxErrs /\ SchedErr(c)
    \/ s.phase = "erred" /\ Sleep(c, "sched_backoff",
                                   IF "BackoffNeverGrows" \in Deviations THEN BackoffS(0) ELSE BackoffS(s.errs))
    \/ s.phase = "wait" /\ Sleep(c, "schedule", s.due)
    \/ s.phase = "due" /\ ReqStart(c)
    \/ s.phase = "req" /\ (\E ok \in BOOLEAN : ReqEnd(c, ok))
    \/ s.phase = "report" /\ AttemptEnd(c, s.ok)
    \/ s.phase = "cool" /\ (IF "NoPauseAfterFailure" \in Deviations THEN AttemptStart(c) ELSE Sleep(c, "renew_fail", FailWaitS))
MCNext == \E c \in Certs : Task(c)
Fairness == \A c \in Certs : WF_vars(Task(c))
MCSpec == MCInit /\ [][MCNext]_vars /\ Fairness

NoBad == bad \cap Enforce = {}
(* every certificate is requested again and again, whatever the others do (the environment *)
(* produces at most MaxErrs scheduling errors in a row)                                     *)
EveryoneServed == \A c \in Certs : []<>(st[c].phase = "req")
(* a task is in at most one phase: trivially true by construction; the interesting state    *)
(* invariant is that the error counter never exceeds what the environment produced          *)
ErrsBounded == \A c \in Certs : st[c].errs <= MaxErrs
=============================================================================
