------------------------------- MODULE Groups -------------------------------
(***************************************************************************)
(* Hook groups as a graph: acmed/src/config.rs::get_hook / get_hook_rec.    *)
(* A certificate (or account) lists names; a name is a hook or a group; a   *)
(* group lists names again.  "Declaration order with groups expanded in     *)
(* place" is Expand; a configuration in which the expansion would meet a    *)
(* group that is being expanded (a cycle reachable from the list, whether    *)
(* or not it passes through the first group named) has no expansion and      *)
(* must be refused with an error - not loop, not overflow the stack.         *)
(*                                                                         *)
(* Hooks.tla uses a depth-bounded Expand for acyclic configurations; this    *)
(* module is the exact definition over every small graph.                    *)
(***************************************************************************)
EXTENDS Naturals, Sequences, FiniteSets, TLC, Json

CONSTANTS Enforce, Deviations,
          GroupNames,     \* e.g. {"g1", "g2", "g3"}
          HookNames,      \* e.g. {"h1", "h2"}
          MaxBody         \* longest group body / start list

VARIABLES conf, phase, bad
vars == <<conf, phase, bad>>
Chk(label, F) == IF F THEN {} ELSE {label}
Labels == {"C19_LoadsOrErrors", "C10_ExpandInPlace", "C10_AcyclicLoads", "C19_CycleRefused"}

Names == GroupNames \cup HookNames
Failed == [ok |-> FALSE, out |-> <<>>]

(* expansion of a list of names while the groups in `stack' are being expanded *)
RECURSIVE Exp(_, _, _)
Exp(bodies, names, stack) ==
    IF names = <<>> THEN [ok |-> TRUE, out |-> <<>>]
    ELSE LET n == Head(names)
             rest == Exp(bodies, Tail(names), stack)
         IN IF n \in HookNames
            THEN (IF rest.ok THEN [ok |-> TRUE, out |-> <<n>> \o rest.out] ELSE Failed)
            ELSE IF n \in stack THEN Failed
            ELSE LET sub == Exp(bodies, bodies[n], stack \cup {n})
                 IN IF sub.ok /\ rest.ok THEN [ok |-> TRUE, out |-> sub.out \o rest.out] ELSE Failed

Expected(c) == Exp(c.bodies, c.start, {})

(* obs: [kind |-> "loaded" | "error" | "crash", hooks |-> Seq] *)
Judge(c, obs) ==
    LET e == Expected(c) IN
         Chk("C19_LoadsOrErrors", obs.kind \in {"loaded", "error"})
    \cup Chk("C19_CycleRefused", ~e.ok => obs.kind # "loaded")
    \cup Chk("C10_AcyclicLoads", e.ok => obs.kind = "loaded")
    \cup Chk("C10_ExpandInPlace", (e.ok /\ obs.kind = "loaded") => obs.hooks = e.out)

-----------------------------------------------------------------------------
(* the code, with named departures *)
RECURSIVE ExpFirstOnly(_, _, _, _)
(* cycle check against the first group of the expansion only: any other cycle recurses for ever *)
ExpFirstOnly(bodies, names, first, fuel) ==
    IF fuel = 0 THEN [kind |-> "crash", out |-> <<>>]
    ELSE IF names = <<>> THEN [kind |-> "loaded", out |-> <<>>]
    ELSE LET n == Head(names)
             rest == ExpFirstOnly(bodies, Tail(names), first, fuel - 1)
         IN IF n \in HookNames
            THEN (IF rest.kind = "loaded" THEN [kind |-> "loaded", out |-> <<n>> \o rest.out] ELSE rest)
            ELSE IF n = first THEN [kind |-> "error", out |-> <<>>]
            ELSE LET sub == ExpFirstOnly(bodies, bodies[n], IF first = "none" THEN n ELSE first, fuel - 1)
                 IN IF sub.kind # "loaded" THEN sub ELSE IF rest.kind # "loaded" THEN rest
                    ELSE [kind |-> "loaded", out |-> sub.out \o rest.out]

(* "already seen" instead of "being expanded": refuses a group reached along two paths *)
RECURSIVE SeenSet(_, _, _)
SeenSet(bodies, names, seen) ==      \* returns [ok, seen]
    IF names = <<>> THEN [ok |-> TRUE, seen |-> seen]
    ELSE LET n == Head(names) IN
         IF n \in HookNames THEN SeenSet(bodies, Tail(names), seen)
         ELSE IF n \in seen THEN [ok |-> FALSE, seen |-> seen]
         ELSE LET sub == SeenSet(bodies, bodies[n], seen \cup {n})
              IN IF ~sub.ok THEN sub ELSE SeenSet(bodies, Tail(names), sub.seen)

Code(c) ==
    IF "CycleCheckFirstGroupOnly" \in Deviations
    THEN LET r == ExpFirstOnly(c.bodies, c.start, "none", 12) IN [kind |-> r.kind, hooks |-> r.out]
    ELSE IF "SeenInsteadOfStack" \in Deviations
    THEN (IF SeenSet(c.bodies, c.start, {}).ok /\ Expected(c).ok THEN [kind |-> "loaded", hooks |-> Expected(c).out]
          ELSE [kind |-> "error", hooks |-> <<>>])
    ELSE LET e == Expected(c) IN IF e.ok THEN [kind |-> "loaded", hooks |-> e.out] ELSE [kind |-> "error", hooks |-> <<>>]

-----------------------------------------------------------------------------
Bodies == UNION { [1..n -> Names] : n \in 0..MaxBody }
Starts == UNION { [1..n -> Names] : n \in 1..(IF MaxBody > 2 THEN 2 ELSE MaxBody) }

MCInit == conf = [bodies |-> [g \in GroupNames |-> <<>>], start |-> <<>>] /\ phase = "pick" /\ bad = {}
MCPick == /\ phase = "pick"
          /\ \E b \in [GroupNames -> Bodies], s \in Starts :
               /\ (\E i \in 1..Len(s) : s[i] \in GroupNames)          \* lists without any group are Hooks.tla's business
               /\ conf' = [bodies |-> b, start |-> s] /\ phase' = "done"
               /\ bad' = Judge(conf', Code(conf'))
MCSpec == MCInit /\ [][MCPick]_vars
NoBad == bad \cap Enforce = {}
Emit == (phase = "done") => PrintT(<<"REPLAY", ToJson([bodies |-> conf.bodies, start |-> conf.start, ok |-> Expected(conf).ok])>>)
=============================================================================
