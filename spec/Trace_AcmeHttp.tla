---------------------------- MODULE Trace_AcmeHttp ----------------------------
(***************************************************************************)
(* Trace validation for AcmeHttp: replays the events one endpoint saw       *)
(* (mock CA ledger + acmed's own http::post events, in file order) through   *)
(* the actions of AcmeHttp.  One event = one action, every parameter bound   *)
(* to the recorded value.  NoBad is checked in every state reached.          *)
(* Several runs are concatenated, separated by Reset (new CA, new daemon)    *)
(* or ClientReset (daemon restarted, same CA) events.                         *)
(***************************************************************************)
EXTENDS AcmeHttp, Json, IOUtils

Rec == ndJsonDeserialize(IOEnv.TRACE)

VARIABLE l
tvars == <<vars, l>>

Ev == Rec[l]
Is(e) == l <= Len(Rec) /\ Rec[l].e = e
Adv == l' = l + 1

TInit == InitWith(<<>>) /\ l = 1

TReset ==
    /\ Is("Reset") /\ Adv
    /\ cell' = NoNonce /\ issued' = {} /\ consumed' = {}
    /\ phase' = "idle" /\ tries' = 0 /\ content' = NoContent
    /\ wire' = NoNonce /\ answer' = NoAnswer /\ newest' = NoNonce
    /\ sentNonces' = {} /\ polls' = 0 /\ pollUrl' = "none" /\ nreq' = 0
    /\ acctKey' = <<>> /\ retryDue' = FALSE /\ caller' = "none" /\ prev' = NoPrev /\ getFailed' = FALSE /\ bad' = {}

TClientReset ==
    /\ Is("ClientReset") /\ Adv
    /\ cell' = NoNonce /\ phase' = "idle" /\ tries' = 0 /\ content' = NoContent
    /\ wire' = NoNonce /\ answer' = NoAnswer /\ newest' = NoNonce
    /\ sentNonces' = {} /\ polls' = 0 /\ pollUrl' = "none"
    /\ UNCHANGED <<issued, consumed, nreq, acctKey>> /\ retryDue' = FALSE /\ caller' = "none" /\ prev' = NoPrev /\ getFailed' = FALSE /\ bad' = {}

TBegin == Is("PostBegin") /\ Adv /\ BeginAs(Ev.poll, Ev.url, Ev.who)
TOver == Is("AttemptOver") /\ Adv /\ AttemptOver(Ev.who)
TSend == Is("HttpPost") /\ Adv /\ Send(Ev.nonce, Ev.cell)
TCaGet == Is("CaGet") /\ Adv /\ CaGet(Ev.rnonce, Ev.kind = "newNonce" /\ Ev.ans \in {"error", "nonproblem"})
TCaPost ==
    /\ Is("CaPost") /\ Adv
    /\ IF Ev.delivered
       THEN CaHandle(Ev, Ev.ans, Ev.type, Ev.rnonce,
                     [op |-> Ev.upd_op, acct |-> Ev.upd_acct, key |-> Ev.upd_key])
       ELSE Lose
TNonceSet == Is("NonceSet") /\ Adv /\ SetNonce(Ev.nonce)
TOk == Is("HttpOk") /\ Adv /\ ClientOk
TErr == Is("HttpErr") /\ Adv /\ ClientErr(Ev.type, Ev.recov)
TGiveUp == Is("HttpGiveUp") /\ Adv /\ GiveUp
TForget == Is("CaForget") /\ Adv /\ CaForget(Ev.acct)

TNext == TReset \/ TClientReset \/ TBegin \/ TSend \/ TCaGet \/ TCaPost \/ TNonceSet
         \/ TOk \/ TErr \/ TGiveUp \/ TForget \/ TOver

(* Every step on which an enforced guard failed is reported (and nothing else  *)
(* is printed: an invariant violation would make TLC print the whole prefix).  *)
Report == (bad' \cap Enforce # {}) => PrintT(<<"BAD", bad' \cap Enforce, l>>)

TSpec == TInit /\ [][TNext /\ Report]_tvars

(* Every line of the trace was consumed. *)
Accepted ==
    LET d == TLCGet("stats").diameter IN
    IF d - 1 = Len(Rec) THEN TRUE
    ELSE /\ PrintT(<<"UNMATCHED", d>>)
         /\ FALSE

=============================================================================
