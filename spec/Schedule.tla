------------------------------- MODULE Schedule -------------------------------
(***************************************************************************)
(* acmed/src/certificate.rs::schedule_renewal / renew_in /                  *)
(* has_missing_identifiers: when is a certificate requested again?          *)
(*                                                                         *)
(* One evaluation takes the files on disk, the relation between the         *)
(* certificate's subjectAltName and the configured identifiers, the time    *)
(* to notAfter (e), renew_delay (d) and random_early_renew (j), and yields   *)
(* a waiting time.  Time is in seconds; the model-checking grid uses         *)
(* multiples of Unit so that the seconds between creating a test             *)
(* certificate and evaluating it (Slack) are far below resolution.           *)
(***************************************************************************)
EXTENDS Integers, Sequences, FiniteSets, TLC, Json

CONSTANTS Enforce, Deviations,
          Es, Ds, Js,      \* grid (in units) for e, d, j
          Rels, Files,     \* SAN relations, file presence patterns
          Unit, Slack      \* seconds per grid unit; measurement slack in seconds

VARIABLES phase, p, res, bad
vars == <<phase, p, res, bad>>

Chk(label, F) == IF F THEN {} ELSE {label}
Labels == {"C06_ImmediateWhenMissing", "C06_NeverLate", "C06_NotTooEarly", "C06_NeverNegative",
           "C06_NoLoop", "C06_Jitter"}

Max0(x) == IF x > 0 THEN x ELSE 0

(* Does the certificate carry every configured identifier?  (exact, canonical names) *)
Covers(rel) == rel \in {"equal", "permuted", "superset", "idn", "ipv4", "ipv6_alt", "mixed_case"}

Immediate(q) == q.files # "both" \/ ~Covers(q.rel)
Upper(q) == Max0(q.e - q.d)                 \* notAfter - renew_delay, from now
Lower(q) == Max0(q.e - q.d - q.j)           \* ... minus the largest early-renew amount

SeqToSet(s) == {s[i] : i \in 1..Len(s)}

(* q: parameters in seconds; samples: the waiting times (seconds) of repeated evaluations *)
Judge(q, samples) ==
    LET S == SeqToSet(samples) IN
         Chk("C06_ImmediateWhenMissing", Immediate(q) => S = {0})
    \cup Chk("C06_NeverNegative", \A s \in S : s >= 0)
    \cup Chk("C06_NeverLate", ~Immediate(q) => \A s \in S : s <= Upper(q))
    \cup Chk("C06_NotTooEarly", ~Immediate(q) =>
                \A s \in S : /\ s + Slack >= Lower(q)
                             /\ (q.j > 0 /\ Lower(q) > Slack) => s + Slack > Lower(q))
    \cup Chk("C06_NoLoop", (~Immediate(q) /\ q.e - q.d - q.j > Slack) => \A s \in S : s > 0)
    \cup Chk("C06_Jitter", (~Immediate(q) /\ q.j >= Unit /\ Lower(q) > 0 /\ Len(samples) >= 16)
                               => Cardinality(S) > 1)

Evaluate(q, samples) ==
    /\ p' = q /\ res' = samples /\ phase' = "done"
    /\ bad' = Judge(q, samples)

-----------------------------------------------------------------------------
(* Model checking: the documented formula, over the whole grid.  A sample is    *)
(* Max0(e - d - jit) for some jit in [0, j) (jit = 0 when j = 0), or 0 when a    *)
(* file is missing or an identifier is not covered.                              *)
Formula(q, jit) == IF Immediate(q) THEN 0
                   ELSE IF "JitterAdded" \in Deviations THEN Max0(q.e - q.d + jit)
                   ELSE Max0(q.e - q.d - jit)

MCInit == phase = "init" /\ p = [e |-> 0, d |-> 0, j |-> 0, rel |-> "equal", files |-> "both"] /\ res = <<>> /\ bad = {}

MCEval ==
    /\ phase = "init"
    /\ \E e \in Es, d \in Ds, j \in Js, rel \in Rels, f \in Files :
         LET q == [e |-> e * Unit, d |-> d * Unit, j |-> j * Unit, rel |-> rel, files |-> f]
             jits == IF j = 0 THEN {0} ELSE {0, (j * Unit) - 1, (j * Unit) \div 2}
         IN \E j1 \in jits, j2 \in jits :
              Evaluate(q, <<Formula(q, j1), Formula(q, j2)>>)

MCSpec == MCInit /\ [][MCEval]_vars

(* Jitter cannot be judged on two samples: excluded from the model's invariant. *)
NoBad == (bad \ {"C06_Jitter"}) \cap Enforce = {}

MCEs == {0 - 10, 0, 1, 5, 10, 11, 20, 100, 2000}
(* far past and far future, in kiloseconds (Unit = 1): around 2^31 and 2^32 seconds, 950 years, year 9999 *)
MCEsFar == {0 - 3200000, 0 - 2200000, 0 - 2000000, 2000000, 2140000, 2150000, 2200000, 3200000, 4300000, 4400000, 30000000, 250000000}

Emit == (phase = "done") => PrintT(<<"REPLAY", ToJson(p)>>)
=============================================================================
