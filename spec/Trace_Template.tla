--------------------------- MODULE Trace_Template ---------------------------
(* Each line: one template as a hook of the real daemon received it:           *)
(* {"e":"Render","env":{var:{"s":..,"t":..}},"segs":[..],"out":".."}           *)
EXTENDS Template, IOUtils
Rec == ndJsonDeserialize(IOEnv.TRACE)
VARIABLE l
tvars == <<vars, l>>
Ev == Rec[l]
TInit == MCInit /\ l = 1
TRender == /\ l <= Len(Rec) /\ l' = l + 1
           /\ tpl' = Ev.segs /\ phase' = "done"
           /\ bad' = Judge(Ev.env, Ev.segs, Ev.out)
Report == (bad' \cap Enforce # {}) => PrintT(<<"BAD", bad' \cap Enforce, l>>)
TSpec == TInit /\ [][TRender /\ Report]_tvars
Accepted == LET d == TLCGet("stats").diameter IN
            IF d - 1 = Len(Rec) THEN TRUE ELSE PrintT(<<"UNMATCHED", d>>) /\ FALSE
=============================================================================
