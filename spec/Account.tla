------------------------------- MODULE Account -------------------------------
(***************************************************************************)
(* One ACME account of the daemon, used on a set of endpoints:              *)
(* acmed/src/account.rs (load, update_keys, synchronize),                   *)
(* acmed/src/acme_proto/account.rs (register / contacts update / key        *)
(* roll-over), account/storage.rs (the account file) and the CA's account   *)
(* table per endpoint.                                                       *)
(*                                                                         *)
(* Keys, contact lists and external bindings are abstract values.  The       *)
(* account file image is [cur, past, ep]: current key, superseded keys,      *)
(* and per endpoint the account URL with the fingerprints (key, contacts,    *)
(* binding) of what was last sent there.                                      *)
(***************************************************************************)
EXTENDS Naturals, Sequences, FiniteSets, TLC

CONSTANTS Enforce, Deviations, Endpoints, MaxHist,
          NoVal          \* "no value": 0 in the model, "none" in traces

VARIABLES
    cfg,       \* [c, kt, eab]: contacts value, key type, binding (0 = none) in the configuration file
    img,       \* the account as loaded/saved: [cur, past, ep] ; cur = [id, kt]
    ca,        \* [Endpoints -> [exists, key, c, eab]]   one account record per endpoint is enough here
    nextKey,   \* fresh key ids
    justified, \* [Endpoints -> BOOLEAN]: the CA has reported the account unknown during this renewal
    hist,      \* length of the history so far (bound)
    bad
vars == <<cfg, img, ca, nextKey, justified, hist, bad>>

Chk(label, F) == IF F THEN {} ELSE {label}
Labels == {"C11_CreateOnlyWhen", "C11_InStepAfterRenew", "C11_OneUpdatePerItem", "C11_RollOverByRecordedKey",
           "C11_EndpointsIndependent", "C11_Durable", "C11_CorruptRefuses"}

NoEp == [url |-> 0, kH |-> 0, cH |-> 0, eH |-> 0]
NoCa == [exists |-> FALSE, key |-> 0, c |-> 0, eab |-> 0]

-----------------------------------------------------------------------------
(* Guards, shared by the model and by the trace specification.                *)

(* a newAccount request for endpoint e is legitimate *)
MayCreate(e) == img.ep[e].url = NoVal \/ justified[e] \/ (cfg.eab # NoVal /\ img.ep[e].eH # cfg.eab)

(* after a successful renewal on e, the CA's record is the configuration's *)
InStep(e) == ca[e].exists /\ ca[e].key = img.cur.id /\ ca[e].c = cfg.c

-----------------------------------------------------------------------------
(* Model of the code.                                                          *)
Init ==
    /\ cfg = [c |-> 1, kt |-> 1, eab |-> 0]
    /\ img = [cur |-> [id |-> 1, kt |-> 1], past |-> <<>>, ep |-> [e \in Endpoints |-> NoEp]]
    /\ ca = [e \in Endpoints |-> NoCa]
    /\ nextKey = 2 /\ justified = [e \in Endpoints |-> FALSE] /\ hist = 0 /\ bad = {}

Step == hist' = hist + 1
Bound == hist < MaxHist

EditContacts == /\ Bound /\ Step /\ cfg' = [cfg EXCEPT !.c = IF cfg.c = 1 THEN 2 ELSE 1]
                /\ UNCHANGED <<img, ca, nextKey, justified>> /\ bad' = {}
EditKey == /\ Bound /\ Step /\ cfg' = [cfg EXCEPT !.kt = IF cfg.kt = 1 THEN 2 ELSE 1]
           /\ UNCHANGED <<img, ca, nextKey, justified>> /\ bad' = {}
EditBoth == /\ Bound /\ Step
            /\ cfg' = [cfg EXCEPT !.c = IF cfg.c = 1 THEN 2 ELSE 1, !.kt = IF cfg.kt = 1 THEN 2 ELSE 1]
            /\ UNCHANGED <<img, ca, nextKey, justified>> /\ bad' = {}
EditEab == /\ Bound /\ Step /\ cfg' = [cfg EXCEPT !.eab = IF cfg.eab = 0 THEN 1 ELSE IF cfg.eab = 1 THEN 2 ELSE 0]
           /\ UNCHANGED <<img, ca, nextKey, justified>> /\ bad' = {}

(* Restart: Account::load + update_keys (+ save when a new key was made). *)
Restart ==
    /\ Bound /\ Step
    /\ IF img.cur.kt # cfg.kt /\ "KeyTypeEditIgnored" \notin Deviations
       THEN /\ img' = [img EXCEPT !.cur = [id |-> nextKey, kt |-> cfg.kt], !.past = Append(img.past, img.cur.id)]
            /\ nextKey' = nextKey + 1
       ELSE UNCHANGED <<img, nextKey>>
    \* C11_Durable is judged on real traces (the model's restart is the identity by construction); what a restart owes the
    \* configuration is a current key of the configured type (in traces: judged when the run's renewal ends)
    /\ bad' = Chk("C11_InStepAfterRenew", img'.cur.kt = cfg.kt)
    /\ UNCHANGED <<cfg, ca, justified>>

CaForgets(e) == /\ Bound /\ Step /\ ca[e].exists
                /\ ca' = [ca EXCEPT ![e] = NoCa]
                /\ UNCHANGED <<cfg, img, nextKey, justified>> /\ bad' = {}

(* register_account: newAccount with the current key; an existing account for that key is returned as is. *)
(* claimC: the contacts fingerprint is recorded as the configuration's.  That is right when the account is created by  *)
(* this request; when the CA may answer with an account it already holds (re-registration for a new binding while the    *)
(* contacts changed as well) the fingerprint must wait for the contacts update to be accepted.                             *)
Registered(c0, i0, e, claimC) ==
    LET made == ~(c0[e].exists /\ c0[e].key = i0.cur.id) IN
    [c2 |-> [c0 EXCEPT ![e] = IF made THEN [exists |-> TRUE, key |-> i0.cur.id, c |-> cfg.c, eab |-> cfg.eab] ELSE c0[e]],
     i2 |-> [i0 EXCEPT !.ep[e] = [url |-> 1, kH |-> i0.cur.id, cH |-> IF claimC THEN cfg.c ELSE i0.ep[e].cH,
                                   eH |-> IF cfg.eab # 0 THEN cfg.eab ELSE i0.ep[e].eH]]]

(* Account::synchronize on endpoint e, then the newOrder of request_certificate.            *)
(* A state of the computation is st = [ok, c2 (CA tables), i2 (image), created, upd].        *)
St0 == [ok |-> TRUE, c2 |-> ca, i2 |-> img, created |-> FALSE, upd |-> 0]
RegC(st, e, claimC) == LET r == Registered(st.c2, st.i2, e, claimC) IN [st EXCEPT !.c2 = r.c2, !.i2 = r.i2, !.created = TRUE]
Reg(st, e) == RegC(st, e, TRUE)

(* update_account_key: outer JWS by the superseded key whose fingerprint is stored for e *)
ApplyK(st, e) ==
    IF ~st.ok THEN st
    ELSE LET ep == st.i2.ep[e] IN
         IF ~(\E k \in 1..Len(st.i2.past) : st.i2.past[k] = ep.kH) THEN [st EXCEPT !.ok = FALSE]    \* "key not found"
         ELSE IF ~st.c2[e].exists THEN Reg([st EXCEPT !.upd = st.upd + 1], e)                      \* accountDoesNotExist
         ELSE IF st.c2[e].key = ep.kH
              THEN [st EXCEPT !.c2[e].key = st.i2.cur.id, !.i2.ep[e].kH = st.i2.cur.id, !.upd = st.upd + 1]
              ELSE [st EXCEPT !.ok = FALSE, !.upd = st.upd + 1]

(* update_account_contacts: signed by the CURRENT key *)
ApplyC(st, e) ==
    IF ~st.ok THEN st
    ELSE IF ~st.c2[e].exists THEN Reg([st EXCEPT !.upd = st.upd + 1], e)
    ELSE IF st.c2[e].key = st.i2.cur.id
         THEN [st EXCEPT !.c2[e].c = cfg.c, !.i2.ep[e].cH = cfg.c, !.upd = st.upd + 1]
         ELSE [st EXCEPT !.ok = FALSE, !.upd = st.upd + 1]       \* the CA cannot verify the signature

(* the CA may refuse a contacts update it could verify (invalidContact, unsupportedContact, policy): nothing changes *)
ApplyCR(st, e, refuse) ==
    IF refuse /\ st.ok /\ st.c2[e].exists /\ st.c2[e].key = st.i2.cur.id
    THEN [st EXCEPT !.ok = FALSE, !.upd = st.upd + 1]
    ELSE ApplyC(st, e)

Sync(e, refuse) ==
    LET ep == img.ep[e]
        cc == ep.cH # cfg.c           \* both flags are computed once, before any request
        kc == ep.kH # img.cur.id
    IN IF ep.url = 0 THEN Reg(St0, e)
       ELSE IF cfg.eab # 0 /\ ep.eH # cfg.eab
            THEN \* registered again for the new binding; the CA answers with the existing account if it knows the key,
                 \* so changed contacts still have to be sent
                 LET a == RegC(St0, e, ~cc \/ "ReRegisterClaimsContacts" \in Deviations) IN
                 IF cc /\ "EabReRegisterSkipsContacts" \notin Deviations THEN ApplyCR(a, e, refuse) ELSE a
       ELSE IF "ContactsBeforeKey" \in Deviations
            THEN LET a == IF cc THEN ApplyC(St0, e) ELSE St0 IN IF kc THEN ApplyK(a, e) ELSE a
            ELSE LET a == IF kc THEN ApplyK(St0, e) ELSE St0
                     b == IF cc THEN ApplyCR(a, e, refuse) ELSE a
                 IN \* deviation: the account file is written once, after the last request of the synchronisation -
                    \* a roll-over the CA accepted is forgotten when the contacts update that follows it fails
                    IF "KeyHashSavedWithContacts" \in Deviations /\ kc /\ cc /\ ~b.ok THEN [b EXCEPT !.i2 = img] ELSE b

(* Is the CA in a position to follow?  (it knows nothing, or holds the key whose fingerprint is stored) *)
CanConverge(e) == ~ca[e].exists \/ ca[e].key = img.ep[e].kH \/ img.ep[e].url = NoVal

Renew(e) ==
    /\ Bound /\ Step
    /\ \E refuse \in BOOLEAN :
       LET s == Sync(e, refuse)
           \* newOrder with kid: an account the CA does not know (any more) is registered again, once
           needReg == s.ok /\ ~s.c2[e].exists
           fin == IF needReg THEN Reg(s, e) ELSE s
           ok == fin.ok /\ fin.c2[e].exists /\ fin.c2[e].key = fin.i2.cur.id
       IN /\ ca' = fin.c2 /\ img' = fin.i2
          /\ bad' = Chk("C11_InStepAfterRenew",
                        /\ (CanConverge(e) /\ ~refuse) => ok
                        /\ ok => fin.c2[e].c = cfg.c)
                 \* whatever the outcome, the key recorded for e is the key the CA holds (every answer was delivered here)
                 \cup Chk("C11_RollOverByRecordedKey", (CanConverge(e) /\ fin.c2[e].exists /\ fin.i2.ep[e].url # 0) => fin.c2[e].key = fin.i2.ep[e].kH)
                 \cup Chk("C11_EndpointsIndependent", \A o \in Endpoints \ {e} : fin.i2.ep[o] = img.ep[o] /\ fin.c2[o] = ca[o])
                 \cup Chk("C11_OneUpdatePerItem", fin.upd <= 2)
    /\ UNCHANGED <<cfg, nextKey, justified>>

Next == EditContacts \/ EditKey \/ EditBoth \/ EditEab \/ Restart
        \/ \E e \in Endpoints : CaForgets(e) \/ Renew(e)
Spec == Init /\ [][Next]_vars
NoBad == bad \cap Enforce = {}

(* After a restart that follows the edits, a successful renewal can always be reached again *)
(* (non-vacuity witness: must be reported violated).                                          *)
W_RenewAfterKeyChange == ~(\E e \in Endpoints : ca[e].exists /\ img.cur.id > 1 /\ ca[e].key = img.cur.id)
=============================================================================
