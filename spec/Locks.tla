-------------------------------- MODULE Locks --------------------------------
(***************************************************************************)
(* Concurrent renewals: the lock programs of acme_proto.rs::                *)
(* request_certificate and account.rs::synchronize over the two kinds of    *)
(* shared objects (one async_lock::RwLock per account, one per endpoint),   *)
(* for several certificates in any sharing pattern.                          *)
(*                                                                         *)
(* Lock semantics (async-lock 3.x, write-preferring): a writer first takes  *)
(* the lock's internal mutex and sets the writer bit ("pending"), which      *)
(* blocks new readers, then waits until the readers have drained; a reader   *)
(* is admitted only when no writer holds or is pending.                       *)
(*                                                                         *)
(* What happens under the endpoint write lock (one http::post with all its  *)
(* transmissions, AcmeHttp) is one atomic step here, with its CA-visible     *)
(* effect: registration of the account on the endpoint.                       *)
(***************************************************************************)
EXTENDS Naturals, Sequences, FiniteSets, TLC

CONSTANTS Enforce, Deviations,
          Tasks,          \* certificates
          AccOf, EpOf,    \* [Tasks -> account], [Tasks -> endpoint]
          MaxForget       \* how often the CA may lose an account (model checking)

VARIABLES
    pc,        \* [Tasks -> program counter]
    readers,   \* [Object -> [Tasks -> Nat]]   read guards held
    writer,    \* [Object -> task or "none"]    write guard held
    pending,   \* [Object -> task or "none"]    writer that has taken the mutex and waits for the readers to drain
    caKnows,   \* [<<account, endpoint>> -> BOOLEAN]   the CA has the account
    urlKnown,  \* [<<account, endpoint>> -> BOOLEAN]   the daemon has an account URL stored
    regs,      \* [<<account, endpoint>> -> Nat]       newAccount requests that created an account
    forgets,   \* [<<account, endpoint>> -> Nat]
    blocks,    \* [Tasks -> Nat]  how many request blocks of the loop part are left (bounds the program)
    bad
vars == <<pc, readers, writer, pending, caKnows, urlKnown, regs, forgets, blocks, bad>>

Chk(label, F) == IF F THEN {} ELSE {label}
Labels == {"C12_LockOrder", "C12_RegisterOnce", "C12_NoNonceSharing", "C12_Terminates", "C12_UnderEndpointLock"}

Accounts == {AccOf[t] : t \in Tasks}
Endpoints == {EpOf[t] : t \in Tasks}
Obj(kind, name) == <<kind, name>>
Objects == {Obj("account", a) : a \in Accounts} \cup {Obj("endpoint", e) : e \in Endpoints}
Pairs == {<<AccOf[t], EpOf[t]>> : t \in Tasks}
A(t) == Obj("account", AccOf[t])
E(t) == Obj("endpoint", EpOf[t])
P(t) == <<AccOf[t], EpOf[t]>>

HoldsRead(t, o) == readers[o][t] > 0
HoldsWrite(t, o) == writer[o] = t
HoldsAny(t, o) == HoldsRead(t, o) \/ HoldsWrite(t, o) \/ pending[o] = t
NoReaders(o) == \A t \in Tasks : readers[o][t] = 0

(* the lock discipline a request must respect (what makes "no deadlock" provable on the model) *)
DisciplineOK(t, o, mode) ==
    /\ ~HoldsWrite(t, o) /\ pending[o] # t                          \* never re-enter a lock one holds for writing
    /\ (mode = "w" => ~HoldsRead(t, o))                              \* never upgrade a read guard
    /\ (o[1] = "account" => \A e \in Endpoints : ~HoldsAny(t, Obj("endpoint", e)))   \* account before endpoint

-----------------------------------------------------------------------------
(* lock operations *)
AcqRead(t, o) ==
    /\ writer[o] = "none" /\ pending[o] = "none"
    /\ readers' = [readers EXCEPT ![o][t] = @ + 1]
    /\ UNCHANGED <<writer, pending>>
TakeMutex(t, o) ==          \* first half of write(): mutex + writer bit
    /\ writer[o] = "none" /\ pending[o] = "none"
    /\ pending' = [pending EXCEPT ![o] = t]
    /\ UNCHANGED <<readers, writer>>
Drain(t, o) ==              \* second half: the readers are gone
    /\ pending[o] = t /\ NoReaders(o)
    /\ writer' = [writer EXCEPT ![o] = t] /\ pending' = [pending EXCEPT ![o] = "none"]
    /\ UNCHANGED readers
RelRead(t, o) == /\ readers' = [readers EXCEPT ![o][t] = @ - 1] /\ UNCHANGED <<writer, pending>>
RelWrite(t, o) == /\ writer' = [writer EXCEPT ![o] = "none"] /\ UNCHANGED <<readers, pending>>

KeepCa == UNCHANGED <<caKnows, urlKnown, regs, forgets>>
Goto(t, p) == pc' = [pc EXCEPT ![t] = p]

(* a lock request of the program: discipline is judged when the request is made *)
Request(t, o, mode, next) ==
    /\ bad' = Chk("C12_LockOrder", DisciplineOK(t, o, mode))
    /\ (IF mode = "r" THEN AcqRead(t, o) ELSE TakeMutex(t, o))
    /\ Goto(t, next) /\ KeepCa /\ UNCHANGED blocks

-----------------------------------------------------------------------------
(* The program of one renewal attempt (line numbers: acmed/src/acme_proto.rs after the repairs). *)
(* "xw" = waiting for the readers to drain after TakeMutex.                                       *)
Prog(t) ==
    \/ /\ pc[t] = "start"   /\ Request(t, E(t), "r", "name")                        \* l.94  endpoint_s.read()
    \/ /\ pc[t] = "name"    /\ RelRead(t, E(t)) /\ Goto(t, "dir") /\ KeepCa /\ UNCHANGED <<blocks>> /\ bad' = {}
    \/ /\ pc[t] = "dir"     /\ Request(t, E(t), "w", "dir_xw")                       \* l.97  refresh_directory
    \/ /\ pc[t] = "dir_xw"  /\ Drain(t, E(t)) /\ Goto(t, "dir_in") /\ KeepCa /\ UNCHANGED blocks /\ bad' = {}
    \/ /\ pc[t] = "dir_in"  /\ RelWrite(t, E(t)) /\ Goto(t, "sync") /\ KeepCa /\ UNCHANGED blocks /\ bad' = {}
    \* l.102-106  account_s.write() .synchronize( endpoint_s.write() )
    \/ /\ pc[t] = "sync"    /\ Request(t, A(t), "w", "sync_xa")
    \/ /\ pc[t] = "sync_xa" /\ Drain(t, A(t)) /\ Goto(t, "sync_e") /\ KeepCa /\ UNCHANGED blocks /\ bad' = {}
    \/ /\ pc[t] = "sync_e"  /\ Request(t, E(t), "w", "sync_xe")
    \/ /\ pc[t] = "sync_xe" /\ Drain(t, E(t)) /\ Goto(t, "sync_in") /\ KeepCa /\ UNCHANGED blocks /\ bad' = {}
    \/ /\ pc[t] = "sync_in"                                                           \* Account::synchronize: register if no URL
       /\ IF ~urlKnown[P(t)]
          THEN /\ regs' = [regs EXCEPT ![P(t)] = IF caKnows[P(t)] THEN @ ELSE @ + 1]
               /\ caKnows' = [caKnows EXCEPT ![P(t)] = TRUE] /\ urlKnown' = [urlKnown EXCEPT ![P(t)] = TRUE]
               /\ UNCHANGED forgets
          ELSE KeepCa
       /\ bad' = Chk("C12_UnderEndpointLock", HoldsWrite(t, E(t)) /\ HoldsWrite(t, A(t)))
       /\ UNCHANGED <<readers, writer, pending, blocks>> /\ Goto(t, "sync_re")
    \/ /\ pc[t] = "sync_re" /\ RelWrite(t, E(t)) /\ Goto(t, "sync_ra") /\ KeepCa /\ UNCHANGED blocks /\ bad' = {}
    \/ /\ pc[t] = "sync_ra" /\ RelWrite(t, A(t)) /\ Goto(t, "ord") /\ KeepCa /\ UNCHANGED blocks /\ bad' = {}
    \* l.110-138  newOrder loop: data_builder holds an account READ guard across the request
    \/ /\ pc[t] = "ord"     /\ Request(t, A(t), "r", "ord_e")
    \/ /\ pc[t] = "ord_e"   /\ Request(t, E(t), "w", "ord_xe")
    \/ /\ pc[t] = "ord_xe"  /\ Drain(t, E(t)) /\ Goto(t, "ord_in") /\ KeepCa /\ UNCHANGED blocks /\ bad' = {}
    \/ /\ pc[t] = "ord_in"                                                            \* POST newOrder under the endpoint lock
       /\ bad' = Chk("C12_UnderEndpointLock", HoldsWrite(t, E(t)))
       /\ Goto(t, IF caKnows[P(t)] THEN "ord_ok" ELSE "ord_adne")
       /\ UNCHANGED <<readers, writer, pending, blocks>> /\ KeepCa
    \/ /\ pc[t] = "ord_ok"  /\ RelWrite(t, E(t)) /\ Goto(t, "ord_rr") /\ KeepCa /\ UNCHANGED blocks /\ bad' = {}
    \/ /\ pc[t] = "ord_rr"  /\ RelRead(t, A(t)) /\ Goto(t, "blk") /\ KeepCa /\ UNCHANGED blocks /\ bad' = {}
    \* accountDoesNotExist: the endpoint guard of the request is released ... (or not: the pre-repair code)
    \/ /\ pc[t] = "ord_adne"
       /\ IF "NestedEndpointWriteOnReRegister" \in Deviations
          THEN UNCHANGED <<readers, writer, pending>>           \* guard of the match scrutinee still alive
          ELSE RelWrite(t, E(t))
       /\ Goto(t, "re_dr") /\ KeepCa /\ UNCHANGED blocks /\ bad' = {}
    \/ /\ pc[t] = "re_dr"   /\ RelRead(t, A(t)) /\ Goto(t, "re_a") /\ KeepCa /\ UNCHANGED blocks /\ bad' = {}   \* drop(data_builder)
    \/ /\ pc[t] = "re_a"    /\ Request(t, A(t), "w", "re_xa")
    \/ /\ pc[t] = "re_xa"   /\ Drain(t, A(t)) /\ Goto(t, "re_e") /\ KeepCa /\ UNCHANGED blocks /\ bad' = {}
    \/ /\ pc[t] = "re_e"    /\ Request(t, E(t), "w", "re_xe")
    \/ /\ pc[t] = "re_xe"   /\ Drain(t, E(t)) /\ Goto(t, "re_in") /\ KeepCa /\ UNCHANGED blocks /\ bad' = {}
    \/ /\ pc[t] = "re_in"                                                             \* register_account
       /\ regs' = [regs EXCEPT ![P(t)] = IF caKnows[P(t)] THEN @ ELSE @ + 1]
       /\ caKnows' = [caKnows EXCEPT ![P(t)] = TRUE] /\ urlKnown' = [urlKnown EXCEPT ![P(t)] = TRUE] /\ UNCHANGED forgets
       /\ bad' = Chk("C12_UnderEndpointLock", HoldsWrite(t, E(t)) /\ HoldsWrite(t, A(t)))
       /\ UNCHANGED <<readers, writer, pending, blocks>> /\ Goto(t, "re_re")
    \/ /\ pc[t] = "re_re"   /\ RelWrite(t, E(t))
       /\ Goto(t, IF "NestedEndpointWriteOnReRegister" \in Deviations THEN "re_re2" ELSE "re_ra") /\ KeepCa /\ UNCHANGED blocks /\ bad' = {}
    \/ /\ pc[t] = "re_re2"  /\ RelWrite(t, E(t)) /\ Goto(t, "re_ra") /\ KeepCa /\ UNCHANGED blocks /\ bad' = {}
    \/ /\ pc[t] = "re_ra"   /\ RelWrite(t, A(t)) /\ Goto(t, "ord") /\ KeepCa /\ UNCHANGED blocks /\ bad' = {}
    \* l.140-286: every further request is the same block: account read guard (data_builder), endpoint write guard
    \/ /\ pc[t] = "blk" /\ blocks[t] = 0
       /\ Goto(t, "done") /\ UNCHANGED <<readers, writer, pending, blocks>> /\ KeepCa /\ bad' = {}
    \/ /\ pc[t] = "blk" /\ blocks[t] > 0 /\ Request(t, A(t), "r", "blk_e")
    \/ /\ pc[t] = "blk_e"   /\ Request(t, E(t), "w", "blk_xe")
    \/ /\ pc[t] = "blk_xe"  /\ Drain(t, E(t)) /\ Goto(t, "blk_in") /\ KeepCa /\ UNCHANGED blocks /\ bad' = {}
    \/ /\ pc[t] = "blk_in"  /\ bad' = Chk("C12_UnderEndpointLock", HoldsWrite(t, E(t)))
       /\ Goto(t, "blk_re") /\ UNCHANGED <<readers, writer, pending, blocks>> /\ KeepCa
    \/ /\ pc[t] = "blk_re"  /\ RelWrite(t, E(t)) /\ Goto(t, "blk_ra") /\ KeepCa /\ UNCHANGED blocks /\ bad' = {}
    \/ /\ pc[t] = "blk_ra"  /\ RelRead(t, A(t)) /\ blocks' = [blocks EXCEPT ![t] = @ - 1] /\ Goto(t, "blk") /\ KeepCa /\ bad' = {}

(* the CA loses an account while renewals are under way *)
Forget == /\ \E p \in Pairs : /\ caKnows[p] /\ forgets[p] < MaxForget
                              /\ caKnows' = [caKnows EXCEPT ![p] = FALSE] /\ forgets' = [forgets EXCEPT ![p] = @ + 1]
          /\ UNCHANGED <<pc, readers, writer, pending, urlKnown, regs, blocks>> /\ bad' = {}

AllDone == \A t \in Tasks : pc[t] = "done"
Finished == AllDone /\ UNCHANGED vars

Init == /\ pc = [t \in Tasks |-> "start"]
        /\ readers = [o \in Objects |-> [t \in Tasks |-> 0]]
        /\ writer = [o \in Objects |-> "none"] /\ pending = [o \in Objects |-> "none"]
        /\ caKnows = [p \in Pairs |-> FALSE] /\ urlKnown = [p \in Pairs |-> FALSE]
        /\ regs = [p \in Pairs |-> 0] /\ forgets = [p \in Pairs |-> 0]
        /\ blocks = [t \in Tasks |-> 2] /\ bad = {}

Next == (\E t \in Tasks : Prog(t)) \/ Forget \/ Finished
Fairness == \A t \in Tasks : WF_vars(Prog(t))
Spec == Init /\ [][Next]_vars /\ Fairness

NoBad == bad \cap Enforce = {}
(* C12: a shared account is registered once per endpoint, again only when the CA lost it *)
C12_RegisterOnceInv == \A p \in Pairs : regs[p] <= 1 + forgets[p]
(* C12: every renewal attempt terminates (with TLC's deadlock check on: no state without successor but the final one) *)
C12_Terminates == <>AllDone
(* mutual exclusion sanity of the lock model *)
LockSane == \A o \in Objects : (writer[o] # "none" => NoReaders(o))
=============================================================================
