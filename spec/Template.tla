------------------------------ MODULE Template ------------------------------
(***************************************************************************)
(* What a hook receives for a template string (acmed/src/template.rs::      *)
(* render_template, used by hooks.rs for args, stdin_str, stdin, stdout,     *)
(* stderr and by storage.rs for file names): "the template syntax is         *)
(* MiniJinja", every documented variable of the event's type is available,   *)
(* a variable that does not exist for the type is empty.                      *)
(*                                                                         *)
(* A template is a sequence of segments; Src gives its concrete syntax (the  *)
(* harness configures exactly that text), Render what the hook must get.     *)
(* An environment maps the variables defined for the event to                 *)
(* [s |-> text, t |-> truthiness].                                            *)
(***************************************************************************)
EXTENDS Naturals, Sequences, FiniteSets, TLC, Json

CONSTANTS Enforce, Deviations, MaxLen

VARIABLES tpl, phase, bad
vars == <<tpl, phase, bad>>

Chk(label, F) == IF F THEN {} ELSE {label}
Labels == {"C10_Template"}

Lit(s) == [k |-> "lit", s |-> s, v |-> "", a |-> "", b |-> ""]
Var(v) == [k |-> "var", s |-> "", v |-> v, a |-> "", b |-> ""]
If(v, a, b) == [k |-> "if", s |-> "", v |-> v, a |-> a, b |-> b]
Rev(v) == [k |-> "rev", s |-> "", v |-> v, a |-> "", b |-> ""]
Dflt(v, a) == [k |-> "dflt", s |-> "", v |-> v, a |-> a, b |-> ""]
Comment == [k |-> "comment", s |-> "remark", v |-> "", a |-> "", b |-> ""]
NL == [k |-> "nl", s |-> "", v |-> "", a |-> "", b |-> ""]

(* concrete MiniJinja syntax of a segment *)
Src(g) ==
    CASE g.k = "lit" -> g.s
      [] g.k = "var" -> "{{ " \o g.v \o " }}"
      [] g.k = "if" -> "{% if " \o g.v \o " %}" \o g.a \o "{% else %}" \o g.b \o "{% endif %}"
      [] g.k = "rev" -> "{{ " \o g.v \o " | rev_labels }}"
      [] g.k = "dflt" -> "{{ " \o g.v \o " | default('" \o g.a \o "') }}"
      [] g.k = "comment" -> "{# " \o g.s \o " #}"
      [] g.k = "nl" -> "\n"

Defined(env, v) == v \in DOMAIN env
Val(env, v) == IF Defined(env, v) THEN env[v].s ELSE ""
(* what the hook gets for one segment *)
Out(env, g) ==
    CASE g.k = "lit" -> g.s
      [] g.k = "var" -> Val(env, g.v)
      [] g.k = "if" -> IF Defined(env, g.v) /\ env[g.v].t THEN g.a ELSE g.b
      [] g.k = "rev" -> Val(env, "rev:" \o g.v)            \* the harness supplies the reversed labels
      [] g.k = "dflt" -> IF Defined(env, g.v) THEN env[g.v].s ELSE g.a
      [] g.k = "comment" -> ""
      [] g.k = "nl" -> "\n"

RECURSIVE OutFrom(_, _, _), SrcFrom(_, _)
OutFrom(env, t, i) == IF i > Len(t) THEN "" ELSE Out(env, t[i]) \o OutFrom(env, t, i + 1)
SrcFrom(t, i) == IF i > Len(t) THEN "" ELSE Src(t[i]) \o SrcFrom(t, i + 1)

(* one newline at the very end of the template text is not part of the output (Jinja convention) *)
Body(t) == IF Len(t) > 0 /\ t[Len(t)].k = "nl" THEN SubSeq(t, 1, Len(t) - 1) ELSE t
Render(env, t) == OutFrom(env, Body(t), 1)
Source(t) == SrcFrom(t, 1)

HasExpr(t) == \E i \in 1..Len(t) : t[i].k \in {"var", "rev", "dflt"}
(* the code, with its named departures *)
CodeRender(env, t) ==
    IF "VerbatimWithoutExpression" \in Deviations /\ ~HasExpr(t)
    THEN Source(t)            \* "no {{ }} in it: nothing to render" - statements, comments, the final newline are left as written
    ELSE Render(env, t)

Judge(env, t, out) == Chk("C10_Template", out = Render(env, t))

-----------------------------------------------------------------------------
Alphabet == { Lit("ab-c"), Lit(" {x} %y #z} "), Var("identifier"), Var("is_clean_hook"), Var("nosuch"),
              If("is_clean_hook", "C", "S"), If("is_success", "OK", "KO"), If("nosuch", "Y", "N"),
              Comment, Rev("identifier"), Dflt("nosuch", "dv"), Dflt("status", "dv"), NL }

Templates == UNION { [1..n -> Alphabet] : n \in 1..MaxLen }

Env1 == ("identifier" :> [s |-> "a.example.org", t |-> TRUE]) @@ ("is_clean_hook" :> [s |-> "false", t |-> FALSE])
        @@ ("rev:identifier" :> [s |-> "org.example.a", t |-> TRUE])
Env2 == ("is_success" :> [s |-> "true", t |-> TRUE]) @@ ("status" :> [s |-> "", t |-> FALSE])

MCInit == tpl = <<>> /\ phase = "pick" /\ bad = {}
MCPick == /\ phase = "pick"
          /\ \E t \in Templates :
               /\ tpl' = t /\ phase' = "done"
               /\ bad' = Judge(Env1, t, CodeRender(Env1, t)) \cup Judge(Env2, t, CodeRender(Env2, t))
MCSpec == MCInit /\ [][MCPick]_vars

NoBad == bad \cap Enforce = {}
Emit == (phase = "done") => PrintT(<<"REPLAY", ToJson([segs |-> tpl, src |-> Source(tpl)])>>)
=============================================================================
