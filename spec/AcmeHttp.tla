------------------------------- MODULE AcmeHttp -------------------------------
(***************************************************************************)
(* The HTTP layer of acmed against ONE ACME endpoint (acmed/src/http.rs,   *)
(* acmed/src/acme_proto/http.rs, acme_proto/structs/error.rs) together     *)
(* with the server side it talks to: the nonce ledger of RFC 8555 6.5 and   *)
(* the account table the JWS of every POST is judged against (6.2).         *)
(*                                                                         *)
(* One *logical request* is one call of http::post: it fetches a nonce if  *)
(* the endpoint's nonce cell is empty, then transmits up to MaxTries times. *)
(* Every step another party can observe is one action; Trace_AcmeHttp maps  *)
(* one recorded event to one action.  Whatever the environment decides is a *)
(* parameter: the model checker quantifies over it, the trace specification *)
(* binds it to the recorded value.                                           *)
(*                                                                         *)
(* Property guards are written Chk(label, F): a step on which F is false     *)
(* still happens (state updates are total) but leaves `label' in the          *)
(* variable `bad' (the guards violated by the step that led to this state).  *)
(* The invariant NoBad == bad \cap Enforce = {} is what TLC checks, in every  *)
(* state of the model and of every validated trace; Enforce selects the       *)
(* labels of the property being decided.                                      *)
(***************************************************************************)
EXTENDS Naturals, Sequences, FiniteSets, TLC

CONSTANTS MaxTries,      \* DEFAULT_HTTP_FAIL_NB_RETRY  = 10 in the code
          MaxPolls,      \* DEFAULT_POOL_NB_TRIES       = 20 in the code
          Nonces,        \* universe of nonce values (model checking)
          Contents,      \* universe of request contents (model checking)
          Enforce,       \* enforced property labels
          Deviations,    \* named departures of the code from the ideal client
          MaxRequests    \* bound on logical requests (model checking only)

VARIABLES cell,          \* the endpoint's nonce cell (endpoint.nonce)
          issued,        \* nonces the CA has handed out
          consumed,      \* nonces that arrived in a delivered request
          phase,         \* "idle" | "fetch" | "loop" | "sent" | "answered" | "ok" | "failed"
          tries,         \* transmissions of the current logical request
          content,       \* content (url, payload) of the current logical request
          wire,          \* nonce of the transmission in flight / last sent
          answer,        \* the CA's answer to it
          newest,        \* the newest nonce the client has received
          sentNonces,    \* nonces used by the transmissions of this logical request
          polls,         \* polls made by the current polling loop
          pollUrl,       \* its URL
          nreq,          \* logical requests so far (bound)
          acctKey,       \* CA account table: account id -> key on record
          retryDue,      \* the last answer was a recoverable error below the bound: the request has to be sent again
          caller,        \* who made the current logical request (a certificate; "none" in the model)
          getFailed,     \* the nonce fetch of the call in progress was answered with an error (whatever headers came with it)
          prev,          \* [url, fail]: the URL of the previous logical request of this attempt and how it ended
                         \*   ("none" = answered 2xx, "adne" = accountDoesNotExist, "open" = anything else)
          bad            \* labels of the property guards violated by the last step

vars == <<cell, issued, consumed, phase, tries, content, wire, answer, newest,
          sentNonces, polls, pollUrl, nreq, acctKey, retryDue, caller, prev, getFailed, bad>>

NoNonce == "none"
NoContent == "none"

Recoverable == {"badNonce", "connection", "dns", "malformed", "rateLimited",
                "serverInternal", "tls"}

OtherErrors == {"accountDoesNotExist", "alreadyRevoked", "badCSR", "badPublicKey",
                "badRevocationReason", "badSignatureAlgorithm", "caa", "compound",
                "externalAccountRequired", "incorrectResponse", "invalidContact",
                "orderNotReady", "rejectedIdentifier", "unauthorized",
                "unsupportedContact", "unsupportedIdentifier", "userActionRequired",
                "unknownType", "notype"}

ErrorTypes == Recoverable \cup OtherErrors

LabelsC04 == {"C04_Fresh", "C04_Url", "C04_Flattened", "C04_AlgMatchesKey",
              "C04_JwkOnlyForNewAccount", "C04_KidIsAccountUrl", "C04_SigUnderRecordedKey",
              "C04_KeyChangeInner", "C04_Eab"}
LabelsC08 == {"C08_AtMost10", "C08_RetryOnlyRecoverable", "C08_SameContent",
              "C08_NewestNonce", "C08_NoSuccessOnError", "C08_NoProblemDocFails",
              "C08_PollAtMost20", "C08_ClassifyRecoverable", "C08_RetriesRecoverable", "C08_NoResendAfterFailure", "C08_FailureEndsAttempt"}
Labels == LabelsC04 \cup LabelsC08

(* A property guard: contributes its label to `bad' when F is false.  The   *)
(* step itself always happens (state updates are total).                    *)
Chk(label, F) == IF F THEN {} ELSE {label}

NoAnswer == [kind |-> "none", type |-> "none", nonce |-> NoNonce]
NoPrev == [url |-> "none", fail |-> "none"]
Keep(vs) == UNCHANGED vs

InitWith(table) ==
    /\ cell = NoNonce /\ issued = {} /\ consumed = {}
    /\ phase = "idle" /\ tries = 0 /\ content = NoContent
    /\ wire = NoNonce /\ answer = NoAnswer /\ newest = NoNonce
    /\ sentNonces = {} /\ polls = 0 /\ pollUrl = "none" /\ nreq = 0
    /\ acctKey = table /\ retryDue = FALSE /\ caller = "none" /\ prev = NoPrev /\ getFailed = FALSE /\ bad = {}

Init == InitWith("a" :> "k")

-----------------------------------------------------------------------------
(* http::post entry.  isPoll: the call is made by pool_object! (it is        *)
(* preceded by the 5 s polling pause); url identifies the polled object.     *)
(* A new call while the previous one still owed a retransmission: the retry was dropped. *)
(* the same request is made again although the previous call for it did not end well (and was not the *)
(* accountDoesNotExist answer that sends the client off to register again)                             *)
Resent(url, who) == prev.url = url /\ prev.fail = "open" /\ who = caller
(* more generally: a call that did not end well ends the caller's attempt (`?' all the way up) - the caller makes no further *)
(* request of any kind until that attempt is over                                                                            *)
AfterFailure(who) == prev.fail = "open" /\ who = caller
BeginAs(isPoll, url, who) ==
    /\ phase' = IF cell = NoNonce THEN "fetch" ELSE "loop"
    /\ retryDue' = FALSE /\ caller' = who
    /\ prev' = [url |-> url, fail |-> "open"]
    /\ tries' = 0 /\ content' = NoContent /\ sentNonces' = {}
    /\ wire' = NoNonce /\ answer' = NoAnswer
    /\ nreq' = nreq + 1
    /\ IF isPoll
       THEN /\ bad' = Chk("C08_PollAtMost20", url = pollUrl => polls < MaxPolls)
                     \cup Chk("C08_RetriesRecoverable", ~retryDue)
                     \cup Chk("C08_NoResendAfterFailure", ~Resent(url, who))
                     \cup Chk("C08_FailureEndsAttempt", ~AfterFailure(who))
            /\ polls' = IF url = pollUrl THEN polls + 1 ELSE 1
            /\ pollUrl' = url
       ELSE polls' = 0 /\ pollUrl' = "none" /\ bad' = Chk("C08_RetriesRecoverable", ~retryDue)
                                                           \cup Chk("C08_NoResendAfterFailure", ~Resent(url, who))
                                                           \cup Chk("C08_FailureEndsAttempt", ~AfterFailure(who))
    /\ getFailed' = FALSE
    /\ Keep(<<cell, issued, consumed, newest, acctKey>>)
Begin(isPoll, url) == BeginAs(isPoll, url, "none")

(* The caller's renewal attempt is over (request_certificate returned): whatever call it *)
(* was in has returned too.                                                                *)
AttemptOver(who) ==
    /\ bad' = Chk("C08_RetriesRecoverable", ~(retryDue /\ caller = who))
    /\ retryDue' = IF caller = who THEN FALSE ELSE retryDue
    /\ prev' = IF caller = who THEN NoPrev ELSE prev
    /\ Keep(<<cell, issued, consumed, phase, tries, content, wire, answer, newest, sentNonces,
              polls, pollUrl, nreq, acctKey, caller, getFailed>>)

(* A GET (directory, newNonce) reaches the CA; n is the Replay-Nonce of the  *)
(* answer, NoNonce when there is none or the answer is lost.                  *)
CaGet(n, failed) ==
    /\ issued' = IF n = NoNonce THEN issued ELSE issued \cup {n}
    /\ retryDue' = IF n = NoNonce \/ failed THEN FALSE ELSE retryDue    \* a nonce fetch that fails ends the call (`?')
    /\ getFailed' = (getFailed \/ failed)
    /\ Keep(<<cell, consumed, phase, tries, content, wire, answer, newest, sentNonces,
              polls, pollUrl, nreq, acctKey, caller, prev>>) /\ bad' = {}

(* update_nonce: the client stores the Replay-Nonce of an answer.             *)
SetNonce(n) ==
    /\ cell' = n /\ newest' = n
    /\ Keep(<<issued, consumed, phase, tries, content, wire, answer, sentNonces, polls,
              pollUrl, nreq, acctKey, retryDue, caller, prev, getFailed>>) /\ bad' = {}

(* One transmission (loop body up to `send()`).  usedNonce: what the code put *)
(* in the protected header; cellAfter: the cell once the request is built.    *)
Send(usedNonce, cellAfter) ==
    /\ bad' =
              Chk("C08_AtMost10", tries < MaxTries)
         \cup Chk("C08_RetryOnlyRecoverable",
                  tries > 0 => (answer.kind = "error" /\ answer.type \in Recoverable))
         \cup Chk("C08_NewestNonce",
                  tries > 0 => (usedNonce = newest /\ usedNonce \notin sentNonces))
         \* a nonce fetch that was answered with an error fails the call: no transmission follows it, even if the error page
         \* carried a Replay-Nonce header
         \cup Chk("C08_NoSuccessOnError", ~getFailed)
    /\ wire' = usedNonce
    /\ sentNonces' = sentNonces \cup {usedNonce}
    /\ tries' = tries + 1
    /\ cell' = cellAfter
    /\ phase' = "sent"
    /\ answer' = NoAnswer /\ retryDue' = FALSE
    /\ Keep(<<issued, consumed, content, newest, polls, pollUrl, nreq, acctKey, caller, prev, getFailed>>)

(* The CA receives a POST.  j: what the CA's own JWS verification found       *)
(*   [nonce, url_ok, flattened, alg_ok, has_jwk, has_kid, kid_acct, signer,   *)
(*    sig_ok, kind, content, inner_ok, eab_ok]                                *)
(* kind/type/n: its answer.  upd: effect on the account table                 *)
(*   [op |-> "none"] | [op |-> "create"|"rekey", acct |-> a, key |-> k]       *)
JwsBad(j) ==
         Chk("C04_Url", j.url_ok)
    \cup Chk("C04_Flattened", j.flattened)
    \cup Chk("C04_AlgMatchesKey", j.alg_ok)
    \cup Chk("C04_JwkOnlyForNewAccount",
             /\ j.has_jwk # j.has_kid
             /\ j.has_jwk <=> (j.kind = "newAccount"))
    \cup Chk("C04_KidIsAccountUrl", j.has_kid => j.kid_acct \in DOMAIN acctKey)
    \cup Chk("C04_SigUnderRecordedKey",
             /\ j.sig_ok
             /\ (j.has_kid /\ j.kid_acct \in DOMAIN acctKey) => j.signer = acctKey[j.kid_acct])
    \cup Chk("C04_KeyChangeInner", j.kind = "keyChange" => j.inner_ok)
    \cup Chk("C04_Eab", j.eab_ok)

CaHandle(j, kind, type, n, upd) ==
    /\ bad' =
              Chk("C04_Fresh", j.nonce \in issued \ consumed)
         \cup JwsBad(j)
         \cup Chk("C08_SameContent", tries > 1 => j.content = content)
    /\ content' = IF tries <= 1 THEN j.content ELSE content
    /\ consumed' = IF j.nonce = NoNonce THEN consumed ELSE consumed \cup {j.nonce}
    /\ issued' = IF n = NoNonce THEN issued ELSE issued \cup {n}
    /\ answer' = [kind |-> kind, type |-> type, nonce |-> n]
    /\ phase' = "answered"
    \* an account URL handed out for a key supersedes every earlier URL of that key (the CA had dropped them, or the client would
    \* have been given the old one back): from now on the account URL is the new one
    /\ acctKey' = IF upd.op = "create"
                  THEN (upd.acct :> upd.key) @@ [a \in {x \in DOMAIN acctKey : acctKey[x] # upd.key} |-> acctKey[a]]
                  ELSE IF upd.op = "rekey" THEN (upd.acct :> upd.key) @@ acctKey
                  ELSE acctKey
    /\ Keep(<<cell, tries, wire, newest, sentNonces, polls, pollUrl, nreq, retryDue, caller, prev, getFailed>>)

(* The transmission never reaches the CA: `send().await?' returns at once.    *)
Lose ==
    /\ answer' = [kind |-> "lost", type |-> "none", nonce |-> NoNonce]
    /\ phase' = "answered"
    /\ Keep(<<cell, issued, consumed, tries, content, wire, newest, sentNonces, polls,
              pollUrl, nreq, acctKey, retryDue, caller, prev, getFailed>>) /\ bad' = {}

(* The CA loses an account (outside any request).  The key it held stays in   *)
(* the table: requests that still name the account are judged against it.      *)
CaForget(a) ==
    /\ acctKey' = acctKey
    /\ Keep(<<cell, issued, consumed, phase, tries, content, wire, answer, newest,
              sentNonces, polls, pollUrl, nreq, retryDue, caller, prev, getFailed>>) /\ bad' = {}

(* check_status is Ok: the call returns the response.                         *)
ClientOk ==
    /\ bad' = Chk("C08_NoSuccessOnError", answer.kind = "ok")
    /\ phase' = "ok" /\ prev' = [prev EXCEPT !.fail = "none"]
    /\ Keep(<<cell, issued, consumed, tries, content, wire, answer, newest, sentNonces,
              polls, pollUrl, nreq, acctKey, retryDue, caller, getFailed>>)

(* Non-2xx with a problem document of type `type'; recov: the code's own      *)
(* classification.  Recoverable: sleep a second and loop; otherwise return.   *)
ClientErr(type, recov) ==
    /\ bad' =
              Chk("C08_NoProblemDocFails", answer.kind = "error" /\ answer.type = type)
         \cup Chk("C08_ClassifyRecoverable", recov = (type \in Recoverable))
    /\ phase' = IF recov THEN "answered" ELSE "failed"
    /\ answer' = [answer EXCEPT !.kind = "error", !.type = type]
    /\ retryDue' = (type \in Recoverable /\ tries < MaxTries)
    /\ prev' = [prev EXCEPT !.fail = IF type = "accountDoesNotExist" THEN "adne" ELSE "open"]
    /\ Keep(<<cell, issued, consumed, tries, content, wire, newest, sentNonces, polls,
              pollUrl, nreq, acctKey, caller, getFailed>>)

(* The loop ran out: "too much errors, will not retry".                       *)
GiveUp ==
    /\ bad' = Chk("C08_AtMost10", tries >= MaxTries)
    /\ phase' = "failed" /\ retryDue' = FALSE
    /\ Keep(<<cell, issued, consumed, tries, content, wire, answer, newest, sentNonces,
              polls, pollUrl, nreq, acctKey, caller, prev, getFailed>>)

(* Any other way out of http::post (`?' on a lost connection, an invalid      *)
(* Replay-Nonce header, a body that is not a problem document).               *)
Fail ==
    /\ phase' = "failed"
    /\ Keep(<<cell, issued, consumed, tries, content, wire, answer, newest, sentNonces,
              polls, pollUrl, nreq, acctKey, retryDue, caller, prev, getFailed>>) /\ bad' = {}

-----------------------------------------------------------------------------
(* Model checking: the client as the code implements it (with Deviations)     *)
(* or as it should be (Deviations = {}), against every environment.           *)

Fresh == IF Nonces \ issued = {} THEN NoNonce ELSE CHOOSE n \in Nonces \ issued : TRUE

GoodJws(c) == [nonce |-> wire, url_ok |-> TRUE, flattened |-> TRUE, alg_ok |-> TRUE,
               has_jwk |-> FALSE, has_kid |-> TRUE, kid_acct |-> "a",
               signer |-> "k", sig_ok |-> TRUE, kind |-> "other", content |-> c,
               inner_ok |-> TRUE, eab_ok |-> TRUE]
NoUpd == [op |-> "none"]

MCBegin == /\ nreq < MaxRequests /\ phase \in {"idle", "ok", "failed"}
           /\ \E u \in Contents : \E p \in BOOLEAN :
                /\ (p /\ u = pollUrl) => polls < MaxPolls   \* pool_object! stops by itself
                \* a call that failed ends the attempt (`?'): the same request is only made again by the next attempt (MCOver),
                \* unless the polling loop swallows the failure and goes round again
                /\ Resent(u, "none") => (p /\ "PollSwallowsFailure" \in Deviations)
                \* ... and no other request either, unless the failed answer is merely logged and the flow goes on
                /\ (AfterFailure("none") /\ ~Resent(u, "none")) => "FailureOnlyLogged" \in Deviations
                /\ Begin(p, u)
MCOver == /\ phase \in {"ok", "failed"} /\ prev # NoPrev /\ AttemptOver("none")

(* new_nonce inside post: `let _ =' ignores a failure (SendWithoutNonce).     *)
MCFetch ==
    /\ phase = "fetch"
    /\ \E n \in {Fresh, NoNonce} :
         IF n # NoNonce
         THEN /\ issued' = issued \cup {n} /\ cell' = n /\ newest' = n /\ phase' = "loop"
              /\ Keep(<<consumed, tries, content, wire, answer, sentNonces, polls, pollUrl,
                        nreq, acctKey, retryDue, caller, prev, getFailed>>) /\ bad' = {}
         ELSE /\ phase' = IF "SendWithoutNonce" \in Deviations THEN "loop" ELSE "failed"
              /\ retryDue' = IF "SendWithoutNonce" \in Deviations THEN retryDue ELSE FALSE
              /\ Keep(<<cell, issued, consumed, tries, content, wire, answer, newest,
                        sentNonces, polls, pollUrl, nreq, acctKey, caller, prev, getFailed>>) /\ bad' = {}

CellAfterUse == IF "NonceNotCleared" \in Deviations THEN cell ELSE NoNonce

MCSend ==
    \/ /\ phase = "loop" /\ tries = 0
       /\ Send(cell, CellAfterUse)
    \/ /\ phase = "answered" /\ answer.kind = "error" /\ answer.type \in Recoverable
       /\ tries < MaxTries /\ tries > 0 /\ retryDue
       /\ IF cell = NoNonce /\ "SendWithoutNonce" \notin Deviations
          THEN /\ phase' = IF "NoRefetchOnRetry" \in Deviations
                           THEN "failed"    \* the nonce test hoisted out of the loop: "no anti-replay nonce", call abandoned
                           ELSE "fetch"     \* no nonce came with the error: fetch one first
               /\ Keep(<<cell, issued, consumed, tries, content, wire, answer, newest,
                         sentNonces, polls, pollUrl, nreq, acctKey, retryDue, caller, prev, getFailed>>) /\ bad' = {}
          ELSE Send(cell, CellAfterUse)
    \/ /\ phase = "loop" /\ tries > 0     \* back from the in-loop fetch
       /\ Send(cell, CellAfterUse)

MCCa ==
    /\ phase = "sent"
    /\ \/ /\ wire \in issued \ consumed
          /\ \E k \in {"ok", "error", "nonproblem", "drop_after"} :
             \E t \in (IF k = "error" THEN ErrorTypes ELSE {"none"}) :
             \E withNonce \in BOOLEAN :
                CaHandle(GoodJws(content), k, t,
                         IF withNonce /\ k # "drop_after" THEN Fresh ELSE NoNonce, NoUpd)
       \/ \* strict CA: a nonce that is not fresh is answered badNonce with a new nonce
          /\ wire \notin issued \ consumed
          /\ \/ CaHandle(GoodJws(content), "error", "badNonce", Fresh, NoUpd)
             \/ CaHandle(GoodJws(content), "drop_after", "none", NoNonce, NoUpd)
       \/ Lose

MCReact ==
    /\ phase = "answered"
    /\ IF answer.nonce # NoNonce /\ answer.nonce # cell /\ answer.kind \notin {"lost", "drop_after"}
       THEN SetNonce(answer.nonce)
       ELSE \/ answer.kind = "ok" /\ ClientOk
            \/ /\ answer.kind = "error" /\ ~(answer.type \in Recoverable)
               /\ ClientErr(answer.type, FALSE)
            \/ /\ answer.kind = "error" /\ answer.type \in Recoverable /\ tries >= MaxTries
               /\ GiveUp
            \/ /\ answer.kind = "error" /\ answer.type \in Recoverable /\ tries < MaxTries /\ ~retryDue
               /\ ClientErr(answer.type, TRUE)
            \/ answer.kind \in {"nonproblem", "drop_after", "lost"} /\ Fail

Next == MCBegin \/ MCOver \/ MCFetch \/ MCSend \/ MCCa \/ MCReact

Spec == Init /\ [][Next]_vars

-----------------------------------------------------------------------------
TypeOK ==
    /\ cell \in Nonces \cup {NoNonce}
    /\ issued \subseteq Nonces /\ consumed \subseteq Nonces \cup {NoNonce}
    /\ phase \in {"idle", "fetch", "loop", "sent", "answered", "ok", "failed"}
    /\ tries \in 0..MaxTries

(* Every property guard held on every step so far.                            *)
NoBad == bad \cap Enforce = {}

(* C08: never more than MaxTries transmissions of one logical request.        *)
C08_BoundInv == tries <= MaxTries

(* C08: success is only reported for a 2xx answer.                            *)
C08_SuccessInv == phase = "ok" => answer.kind = "ok"

(* C08: an unrecoverable answer (or one that is no problem document) ends the *)
(* logical request: it is not transmitted again.                              *)
C08_NoResendAct ==
    [][(phase = "failed" \/ (phase = "answered" /\ answer.kind \in {"nonproblem", "lost", "drop_after"}))
        => (tries' = tries \/ tries' = 0)]_vars

(* C08: the polling loop stops after MaxPolls polls of one object.            *)
C08_PollInv == polls <= MaxPolls

(* Non-vacuity witnesses (must be violated: the states are reachable).        *)
W_RetryHappens == ~(tries = MaxTries /\ phase = "failed")
W_SuccessAfterRetry == ~(tries > 1 /\ phase = "ok")
=============================================================================
