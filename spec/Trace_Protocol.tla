---------------------------- MODULE Trace_Protocol ----------------------------
(* The CA-side request log of recorded daemon runs (one certificate, one        *)
(* endpoint), in file order, with the attempt boundaries the daemon reported;   *)
(* Reset separates daemon processes.  `ok` = the answer was a delivered 200/201.*)
EXTENDS Protocol, IOUtils
Rec == ndJsonDeserialize(IOEnv.TRACE)
VARIABLE l
tvars == <<vars, l>>
Ev == Rec[l]
Is(e) == l <= Len(Rec) /\ Rec[l].e = e
Adv == l' = l + 1
ToSet(s) == {s[k] : k \in 1..Len(s)}
mcvars == <<pc, i, n, na, no, hist>>
TInit == PInit /\ l = 1 /\ pc = "trace" /\ i = 0 /\ n = 0 /\ na = 0 /\ no = 0 /\ hist = <<>>
TNext == \/ (Is("Reset") /\ Adv /\ AttemptStart)
         \/ (Is("AttemptStart") /\ Adv /\ AttemptStart)
         \/ (Is("Directory") /\ Adv /\ Directory(Ev.ok))
         \/ (Is("NewOrder") /\ Adv /\ NewOrder(Ev.ok, Ev.o, Ev.zs))
         \/ (Is("Authz") /\ Adv /\ Authz(Ev.ok, Ev.z, Ev.status, ToSet(Ev.chals)))
         \/ (Is("Chall") /\ Adv /\ Chall(Ev.ok, Ev.c, Ev.z))
         \/ (Is("OrderPoll") /\ Adv /\ OrderPoll(Ev.ok, Ev.o, Ev.status, Ev.hascert))
         \/ (Is("Finalize") /\ Adv /\ Finalize(Ev.ok, Ev.o))
         \/ (Is("Cert") /\ Adv /\ Cert(Ev.ok, Ev.o))
         \/ (Is("AttemptEnd") /\ Adv /\ AttemptEnd(Ev.ok))
Report == (bad' \cap Enforce # {}) => PrintT(<<"BAD", bad' \cap Enforce, l>>)
TSpec == TInit /\ [][TNext /\ Report /\ UNCHANGED mcvars]_tvars
Accepted == LET d == TLCGet("stats").diameter IN
            IF d - 1 = Len(Rec) THEN TRUE ELSE PrintT(<<"UNMATCHED", d>>) /\ FALSE
=============================================================================
