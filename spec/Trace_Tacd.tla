------------------------------ MODULE Trace_Tacd ------------------------------
(* Connections made to a real tacd by the harness's TLS client, with what came back, and  *)
(* whether the process was still there afterwards.                                          *)
EXTENDS Tacd, IOUtils
Rec == ndJsonDeserialize(IOEnv.TRACE)
VARIABLES l, want
tvars == <<vars, l, want>>
Ev == Rec[l]
Is(e) == l <= Len(Rec) /\ Rec[l].e = e
Adv == l' = l + 1
TInit == Init /\ l = 1 /\ want = [domain |-> "none", value |-> "none"]
TReset == /\ Is("Reset") /\ Adv /\ want' = [domain |-> Ev.domain, value |-> Ev.value]
          /\ alive' = TRUE /\ serving' = TRUE /\ hist' = <<>> /\ lastValid' = FALSE /\ bad' = {}
TTls == /\ Is("Tls") /\ Adv
        /\ bad' = JudgeTls(Ev.offer, Ev.res, want) \cup (IF Ev.validation THEN Chk("C17_NextValidServed", Ev.res.completed) ELSE {})
        /\ UNCHANGED <<alive, serving, hist, lastValid, want>>
THostile == /\ Is("Hostile") /\ Adv /\ hist' = Append(hist, Ev.kind) /\ bad' = {} /\ UNCHANGED <<alive, serving, lastValid, want>>
TProbe == /\ Is("Alive") /\ Adv
          /\ alive' = Ev.alive
          /\ bad' = Chk("C17_Alive", Ev.alive)
          /\ UNCHANGED <<serving, hist, lastValid, want>>
TNext == TReset \/ TTls \/ THostile \/ TProbe
Report == (bad' \cap Enforce # {}) => PrintT(<<"BAD", bad' \cap Enforce, l>>)
TSpec == TInit /\ [][TNext /\ Report]_tvars
Accepted == LET d == TLCGet("stats").diameter IN
            IF d - 1 = Len(Rec) THEN TRUE ELSE PrintT(<<"UNMATCHED", d>>) /\ FALSE
=============================================================================
