------------------------------ MODULE Trace_Locks ------------------------------
(***************************************************************************)
(* Trace validation for Locks: lock request/acquire/release events of the   *)
(* daemon's RwLock wrapper (tagged with the certificate whose future was    *)
(* being polled), its HTTP events and the CA's account creations, in file   *)
(* order, for runs with several certificates.  The lock discipline that     *)
(* the model needs for deadlock freedom is judged on every request; every   *)
(* HTTP request must be made under the endpoint's write lock; an account is *)
(* created at most once per (key, endpoint) plus once per loss by the CA.    *)
(***************************************************************************)
EXTENDS Locks, Json, IOUtils
Rec == ndJsonDeserialize(IOEnv.TRACE)
VARIABLES l, created, lost, open,
          regreq,    \* accepted newAccount requests per <<key, endpoint>> (whether they created the account or found it)
          unknown    \* answers "accountDoesNotExist" the CA gave to requests of that account
tvars == <<vars, l, created, lost, open, regreq, unknown>>
Ev == Rec[l]
Is(e) == l <= Len(Rec) /\ Rec[l].e = e
Adv == l' = l + 1 /\ UNCHANGED <<pc, caKnows, urlKnown, regs, forgets, blocks>>
O(x) == <<x[1], x[2]>>
Get(f, k) == IF k \in DOMAIN f THEN f[k] ELSE 0

Clear == /\ readers' = [o \in Objects |-> [t \in Tasks |-> 0]] /\ writer' = [o \in Objects |-> "none"]
         /\ pending' = [o \in Objects |-> "none"]
TInit == Init /\ l = 1 /\ created = <<>> /\ lost = <<>> /\ open = {} /\ regreq = <<>> /\ unknown = <<>>
TReset == /\ Is("Reset") /\ Adv /\ Clear /\ created' = <<>> /\ lost' = <<>> /\ open' = {} /\ regreq' = <<>> /\ unknown' = <<>> /\ bad' = {}
(* a new daemon process: no guard survives *)
TStart == /\ Is("DaemonStart") /\ Adv /\ Clear /\ open' = {} /\ bad' = {} /\ UNCHANGED <<created, lost, regreq, unknown>>

TReq == /\ Is("LockReq") /\ Adv
        /\ bad' = Chk("C12_LockOrder", DisciplineOK(Ev.task, O(Ev.lock), Ev.mode))
        /\ UNCHANGED <<readers, writer, pending, created, lost, open, regreq, unknown>>
TAcq == /\ Is("LockAcq") /\ Adv
        /\ IF Ev.mode = "r"
           THEN readers' = [readers EXCEPT ![O(Ev.lock)][Ev.task] = @ + 1] /\ UNCHANGED writer
           ELSE writer' = [writer EXCEPT ![O(Ev.lock)] = Ev.task] /\ UNCHANGED readers
        /\ bad' = {} /\ UNCHANGED <<pending, created, lost, open, regreq, unknown>>
TRel == /\ Is("LockRel") /\ Adv
        /\ IF Ev.mode = "r"
           THEN readers' = [readers EXCEPT ![O(Ev.lock)][Ev.task] = IF @ > 0 THEN @ - 1 ELSE 0] /\ UNCHANGED writer
           ELSE writer' = [writer EXCEPT ![O(Ev.lock)] = "none"] /\ UNCHANGED readers
        /\ bad' = {} /\ UNCHANGED <<pending, created, lost, open, regreq, unknown>>
THttp == /\ Is("Http") /\ Adv
         /\ bad' = Chk("C12_UnderEndpointLock", HoldsWrite(Ev.task, <<"endpoint", Ev.ep>>))
         /\ UNCHANGED <<readers, writer, pending, created, lost, open, regreq, unknown>>
TCreated == /\ Is("Created") /\ Adv
            /\ LET k == <<Ev.key, Ev.ep>> IN
               /\ created' = (k :> (Get(created, k) + 1)) @@ created
               /\ bad' = Chk("C12_RegisterOnce", Get(created, k) + 1 <= 1 + Get(lost, k))
            /\ UNCHANGED <<readers, writer, pending, lost, open, regreq, unknown>>
TLost == /\ Is("Lost") /\ Adv
         /\ LET k == <<Ev.key, Ev.ep>> IN lost' = (k :> (Get(lost, k) + 1)) @@ lost
         /\ bad' = {} /\ UNCHANGED <<readers, writer, pending, created, open, regreq, unknown>>
(* a newAccount request the CA accepted: the first one for this key on this endpoint, or one the CA asked for *)
(* by answering accountDoesNotExist to a request of that account                                              *)
TRegReq == /\ Is("RegReq") /\ Adv
           /\ LET k == <<Ev.key, Ev.ep>> IN
              /\ regreq' = (k :> (Get(regreq, k) + 1)) @@ regreq
              /\ bad' = Chk("C12_RegisterOnce", Get(regreq, k) + 1 <= 1 + Get(unknown, k))
           /\ UNCHANGED <<readers, writer, pending, created, lost, open, unknown>>
TUnknown == /\ Is("Unknown") /\ Adv
            /\ LET k == <<Ev.key, Ev.ep>> IN unknown' = (k :> (Get(unknown, k) + 1)) @@ unknown
            /\ bad' = {} /\ UNCHANGED <<readers, writer, pending, created, lost, open, regreq>>
TAttemptStart == /\ Is("AttemptStart") /\ Adv /\ open' = open \cup {Ev.task} /\ bad' = {}
                 /\ UNCHANGED <<readers, writer, pending, created, lost, regreq, unknown>>
TAttemptEnd == /\ Is("AttemptEnd") /\ Adv /\ open' = open \ {Ev.task} /\ bad' = {}
               /\ UNCHANGED <<readers, writer, pending, created, lost, regreq, unknown>>
(* the daemon ended: by its attempt budget (every attempt over), not killed as hung *)
TDaemonEnd == /\ Is("DaemonEnd") /\ Adv
              /\ bad' = Chk("C12_Terminates", Ev.clean /\ open = {})
              /\ UNCHANGED <<readers, writer, pending, created, lost, open, regreq, unknown>>
TNext == TReset \/ TStart \/ TReq \/ TAcq \/ TRel \/ THttp \/ TCreated \/ TLost \/ TRegReq \/ TUnknown \/ TAttemptStart \/ TAttemptEnd \/ TDaemonEnd
Report == (bad' \cap Enforce # {}) => PrintT(<<"BAD", bad' \cap Enforce, l>>)
TSpec == TInit /\ [][TNext /\ Report]_tvars
Accepted == LET d == TLCGet("stats").diameter IN
            IF d - 1 = Len(Rec) THEN TRUE ELSE PrintT(<<"UNMATCHED", d>>) /\ FALSE

TT == {"t1", "t2", "t3", "t4", "t5", "t6", "t7", "t8", "none"}
TAcc == [t \in TT |-> CASE t \in {"t1", "t4", "t7"} -> "acc1" [] t \in {"t2", "t5", "t8"} -> "acc2" [] OTHER -> "acc3"]
TEp == [t \in TT |-> CASE t \in {"t1", "t2", "t3"} -> "A" [] t \in {"t4", "t5", "t6"} -> "B" [] OTHER -> "C"]
=============================================================================
