--------------------------------- MODULE Tacd ---------------------------------
(***************************************************************************)
(* tacd (tacd/src/main.rs, tacd/src/openssl_server.rs): a thread-per-       *)
(* connection TLS acceptor that answers the tls-alpn-01 challenge.           *)
(*                                                                         *)
(* A connection is one step: the peer's behaviour and, for TLS peers, the   *)
(* ALPN protocols offered.  The daemon is `alive' until something kills it; *)
(* with the pre-repair code a failed handshake panics the connection thread *)
(* (`accept().unwrap()') and, in the shipped profile (panic = 'abort'),      *)
(* that ends the process.                                                     *)
(***************************************************************************)
EXTENDS Naturals, Sequences, FiniteSets, TLC, Json

CONSTANTS Enforce, Deviations, MaxHist

VARIABLES alive,      \* the process exists
          serving,    \* its accept loop still hands connections to a handshake
          hist, lastValid, bad
vars == <<alive, serving, hist, lastValid, bad>>
Chk(label, F) == IF F THEN {} ELSE {label}
Labels == {"C16_Selected", "C16_San", "C16_AcmeId", "C16_SelfSignedValid", "C16_RefuseForeign", "C17_Alive", "C17_NextValidServed"}

Acme == "acme-tls/1"
Behaviours == {"connect_close", "connect_reset", "garbage", "plain_http", "tls_no_alpn", "tls_foreign_alpn", "abandon_after_hello", "stalled_50",
               "fd_exhaustion",     \* more idle connections at once than the daemon has descriptors: accept() itself fails for a while
               "slow_peer"}         \* a peer that sends its ClientHello a byte every few seconds for more than half a minute, then gives up
(* which behaviours end in a failed handshake on the server side *)
FailsHandshake(b) == b \in {"connect_close", "connect_reset", "garbage", "plain_http", "tls_foreign_alpn", "abandon_after_hello", "stalled_50", "fd_exhaustion", "slow_peer"}
TakesLong(b) == b = "slow_peer"
FailsAccept(b) == b = "fd_exhaustion"

SeqToSet(s) == {s[i] : i \in 1..Len(s)}

(* a TLS client offering `offer' (a sequence of protocol names; <<>> = no ALPN extension) got `res':           *)
(* [completed, selected, sans, acme_critical, acme_value, self_signed, valid_now]; want: [domain, value]       *)
JudgeTls(offer, res, want) ==
    IF Acme \in SeqToSet(offer)
    THEN      Chk("C16_Selected", res.completed /\ res.selected = Acme)
         \cup Chk("C16_San", res.completed => res.sans = <<want.domain>>)
         \cup Chk("C16_AcmeId", res.completed => (res.acme_critical /\ res.acme_value = want.value))
         \cup Chk("C16_SelfSignedValid", res.completed => (res.self_signed /\ res.valid_now))
    ELSE IF offer # <<>>
         THEN Chk("C16_RefuseForeign", ~res.completed)
         ELSE {}        \* no ALPN extension at all: outside the two clauses of the property

(* a hostile / failed connection *)
Hostile(b) ==
    /\ alive
    /\ alive' = IF \/ FailsHandshake(b) /\ "HandshakeFailPanics" \in Deviations /\ "PanicAbort" \in Deviations
                   \/ FailsAccept(b) /\ "AcceptErrorEndsLoop" \in Deviations        \* `?' on the result of accept()
                THEN FALSE ELSE alive
    \* a time limit meant for one connection but measured from the start of the listener: once it has passed nobody is served
    /\ serving' = IF TakesLong(b) /\ "DeadlineSetOnce" \in Deviations THEN FALSE ELSE serving
    /\ hist' = Append(hist, b) /\ bad' = {} /\ UNCHANGED lastValid

(* a conforming validation attempt *)
Valid ==
    /\ lastValid' = (alive /\ serving)
    /\ bad' = Chk("C17_NextValidServed", alive /\ serving) \cup Chk("C17_Alive", alive)
    /\ hist' = Append(hist, "valid") /\ UNCHANGED <<alive, serving>>

LastIs(x) == IF Len(hist) = 0 THEN FALSE ELSE hist[Len(hist)] = x
Init == alive = TRUE /\ serving = TRUE /\ hist = <<>> /\ lastValid = FALSE /\ bad = {}
Next == \/ (Len(hist) < MaxHist /\ \E b \in Behaviours : Hostile(b))
        \/ (Len(hist) <= MaxHist /\ LastIs("valid") = FALSE /\ Valid)
Spec == Init /\ [][Next]_vars
NoBad == bad \cap Enforce = {}
Emit == LastIs("valid") => PrintT(<<"REPLAY", ToJson(hist)>>)

-----------------------------------------------------------------------------
(* The ALPN case split (C16), as openssl_server.rs implements it: select_next_proto(acme-tls/1, client list), *)
(* a fatal alert when nothing matches, and OpenSSL's behaviour when the client sends no ALPN extension.        *)
(* names that merely look like the ACME protocol identifier: RFC 7301 compares identifiers byte for byte *)
LookAlikes == {"acme-tls/10", "acme-tls/1.1"}
ProtosQuick == {Acme, "h2", "http/1.1", "acme-tls/10", "acme-tls/"}
ProtosFull == ProtosQuick \cup {"acme-tls/1.1", "ACME-TLS/1"}
Protos == ProtosQuick
Want0 == [domain |-> "dns:d", value |-> "v"]
ModelRes(offer) ==
    IF \/ Acme \in SeqToSet(offer) \/ ("AlpnAcceptsAnything" \in Deviations /\ offer # <<>>)
       \/ ("AlpnPrefixMatch" \in Deviations /\ SeqToSet(offer) \cap LookAlikes # {})    \* starts_with instead of equality
    THEN [completed |-> TRUE, selected |-> IF Acme \in SeqToSet(offer) THEN Acme ELSE offer[1], sans |-> <<"dns:d">>,
          acme_critical |-> TRUE, acme_value |-> "v", self_signed |-> TRUE, valid_now |-> TRUE]
    ELSE IF offer # <<>>
         THEN [completed |-> FALSE, selected |-> "none", sans |-> <<>>, acme_critical |-> FALSE, acme_value |-> "none",
               self_signed |-> FALSE, valid_now |-> FALSE]
         ELSE [completed |-> TRUE, selected |-> "none", sans |-> <<"dns:d">>, acme_critical |-> TRUE, acme_value |-> "v",
               self_signed |-> TRUE, valid_now |-> TRUE]
AlpnNext == /\ hist = <<>>
            /\ \E n \in 0..3 : \E o \in [1..n -> Protos] :
                 /\ bad' = JudgeTls(o, ModelRes(o), Want0) /\ hist' = <<o>>
            /\ UNCHANGED <<alive, serving, lastValid>>
AlpnSpec == Init /\ [][AlpnNext]_vars
EmitOffer == (Len(hist) = 1) => PrintT(<<"REPLAY", ToJson(hist[1])>>)
=============================================================================
