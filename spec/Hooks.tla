-------------------------------- MODULE Hooks --------------------------------
(***************************************************************************)
(* Which hooks run, in which order, and when a sequence stops:              *)
(* config.rs::get_hook (group expansion), main_event_loop.rs (split into    *)
(* file hooks and certificate hooks), hooks.rs::call / call_single,         *)
(* storage.rs::write_file (bracketing of a write), and the layering of the   *)
(* environment handed to a hook.                                             *)
(*                                                                         *)
(* A configuration is: hook definitions (name -> type set, allow_failure),   *)
(* groups (name -> sequence of names) and, per owner (a certificate or an    *)
(* account), the declared list of names.  Expand is the specification's own  *)
(* definition of "declaration order with groups expanded in place".          *)
(***************************************************************************)
EXTENDS Naturals, Sequences, FiniteSets, TLC, Json

CONSTANTS Enforce, Deviations

VARIABLES
    conf,      \* [defs, groups, lists]   defs: Seq([name, types, allow]); groups: Seq([name, hooks]); lists: Seq([owner, names])
    present,   \* paths of the files that exist
    call,      \* the hook call in progress: [type, expected (Seq of names), pos, aborted, open] or NoCall
    running,   \* name of the hook process currently running, or "none"
    pending,   \* the file write being bracketed: [path, isnew, stage] or NoWrite
    owed,      \* challenge hook calls of this attempt that have not been followed by their clean call yet
    bad
vars == <<conf, present, call, running, pending, owed, bad>>

Chk(label, F) == IF F THEN {} ELSE {label}
Labels == {"C10_Order", "C10_ByType", "C10_OneAtATime", "C10_AbortUnlessAllowed", "C10_Env", "C10_Vars",
           "C10_FileBracket", "C10_StdinStdout", "C10_CleanAfterValidation"}

NoCall == [type |-> "none", expected |-> <<>>, pos |-> 0, aborted |-> FALSE, open |-> FALSE]
NoWrite == [path |-> "none", isnew |-> FALSE, stage |-> "none"]
SeqToSet(s) == {s[i] : i \in 1..Len(s)}

Def(n) == LET S == {i \in 1..Len(conf.defs) : conf.defs[i].name = n}
          IN IF S = {} THEN [name |-> n, types |-> {}, allow |-> FALSE] ELSE conf.defs[CHOOSE i \in S : TRUE]
IsGroup(n) == \E i \in 1..Len(conf.groups) : conf.groups[i].name = n
GroupOf(n) == conf.groups[CHOOSE i \in 1..Len(conf.groups) : conf.groups[i].name = n].hooks

(* declaration order, groups expanded in place; depth bounds the recursion (cyclic groups are C19's business) *)
RECURSIVE Expand(_, _)
Expand(names, depth) ==
    IF names = <<>> \/ depth = 0 THEN <<>>
    ELSE LET n == Head(names) IN
         (IF IsGroup(n) /\ ~(\E i \in 1..Len(conf.defs) : conf.defs[i].name = n)
          THEN Expand(GroupOf(n), depth - 1) ELSE <<n>>) \o Expand(Tail(names), depth)

Selected(names, type) == SelectSeq(Expand(names, 6), LAMBDA n : type \in Def(n).types)

(* the declared list the filtered list `all' comes from: hook names of different owners are disjoint *)
ListFor(all) ==
    LET S == {i \in 1..Len(conf.lists) : SeqToSet(all) \subseteq SeqToSet(Expand(conf.lists[i].names, 6)) /\ all # <<>>}
    IN IF S = {} THEN <<>> ELSE conf.lists[CHOOSE i \in S : TRUE].names

-----------------------------------------------------------------------------
(* hooks::call is entered for `type' with the owner's (filtered) hook list `all'.  The previous call, *)
(* if any, is over: unless it was aborted, every selected hook must have run.                          *)
CallDone == call.open => (call.aborted \/ call.pos = Len(call.expected))

BracketOnCall(type) ==
    CASE type \in {"file-pre-create", "file-pre-edit"} -> TRUE
      [] type \in {"file-post-create", "file-post-edit"} ->
             pending.stage = "written" /\ (type = "file-post-create") = pending.isnew
      [] OTHER -> TRUE

OwedCap == 8          \* saturation (the code cleans up after each authorization: 1 in practice); the model-checking run uses 0
MCOwedCap == 0
ChallengeTypes == {"challenge-http-01", "challenge-dns-01", "challenge-tls-alpn-01"}
CleanTypes == {"challenge-http-01-clean", "challenge-dns-01-clean", "challenge-tls-alpn-01-clean"}
BeginCall(type, all) ==
    /\ bad' = Chk("C10_ByType", CallDone)
         \cup Chk("C10_FileBracket", BracketOnCall(type))
    /\ call' = [type |-> type, expected |-> Selected(ListFor(all), type), pos |-> 0, aborted |-> FALSE, open |-> TRUE]
    /\ pending' = IF type \in {"file-pre-create", "file-pre-edit"}
                  THEN [path |-> "unknown", isnew |-> (type = "file-pre-create"), stage |-> "pre"]
                  ELSE IF type \in {"file-post-create", "file-post-edit"} THEN NoWrite ELSE pending
    /\ owed' = IF type \in ChallengeTypes THEN (IF owed < OwedCap THEN owed + 1 ELSE owed)
               ELSE IF type \in CleanTypes /\ owed > 0 THEN owed - 1 ELSE owed
    /\ UNCHANGED <<conf, present, running>>

(* a hook process started / ended *)
HookStart(h) ==
    /\ bad' = Chk("C10_OneAtATime", running = "none")
    /\ running' = h
    /\ UNCHANGED <<conf, present, call, pending, owed>>

(* envs: sequence of [p, g, c, i, value]: a variable defined at the levels p(rocess), g(lobal), c(ertificate),  *)
(* i(dentifier) arrived with `value' (the tag of a level, or "absent").  role: "chal" | "other".                 *)
EnvWinner(e, role) ==
    IF e.i /\ role = "chal" THEN "ident" ELSE IF e.c THEN "cert" ELSE IF e.g THEN "glob" ELSE IF e.p THEN "proc" ELSE "absent"

HookEnd(h, exit, envs, role, obs, want) ==
    LET exp == IF call.pos < Len(call.expected) THEN call.expected[call.pos + 1] ELSE "none"
        failed == exit # 0 /\ ~Def(h).allow
    IN
    /\ bad' = Chk("C10_Order", call.open /\ h = exp)
         \cup Chk("C10_ByType", call.open /\ call.type \in Def(h).types)
         \cup Chk("C10_AbortUnlessAllowed", ~call.aborted)
         \* the value in the hook's process environment, and the value the template variable `env' shows for the same name
         \* (the manual: "env: array containing all the environment variables")
         \cup Chk("C10_Env", \A k \in 1..Len(envs) : envs[k].value = EnvWinner(envs[k], role) /\ envs[k].tvalue = EnvWinner(envs[k], role))
         \cup Chk("C10_Vars", obs.vars = want.vars)
         \cup Chk("C10_StdinStdout", obs.io = want.io)
    /\ call' = [call EXCEPT !.pos = IF h = exp THEN call.pos + 1 ELSE call.pos,
                            !.aborted = call.aborted \/ failed]
    /\ running' = "none"
    /\ UNCHANGED <<conf, present, pending, owed>>

(* storage::write_file wrote `path' *)
FileWritten(path) ==
    /\ bad' = Chk("C10_FileBracket", pending.stage = "pre" /\ pending.isnew = (path \notin present))
    /\ pending' = [path |-> path, isnew |-> (path \notin present), stage |-> "written"]
    /\ present' = present \cup {path}
    /\ UNCHANGED <<conf, call, running, owed>>

(* end of the run (or of an attempt): the last call must be complete, a written file must have got its post hooks *)
(* ok: the attempt that ends here was a success, i.e. every challenge was validated: each must have had its clean call *)
EndRunWith(ok) ==
    /\ bad' = Chk("C10_ByType", CallDone)
                \cup Chk("C10_CleanAfterValidation", ok => owed = 0)
    /\ call' = NoCall /\ pending' = NoWrite /\ owed' = 0
    /\ UNCHANGED <<conf, present, running>>
EndRun == EndRunWith(FALSE)

-----------------------------------------------------------------------------
(* Model checking: the family of configurations the driver instantiates.  Three hooks with a profile each    *)
(* (type set), allow_failure and scripted exit code; two groups; a list shape.  For each configuration and    *)
(* each event type the code's call is simulated and the guards must hold; the configuration is printed.       *)
Profiles == << {"challenge-http-01"}, {"challenge-http-01", "challenge-http-01-clean"}, {"post-operation"},
               {"file-pre-create", "file-pre-edit", "file-post-create", "file-post-edit"},
               {"challenge-http-01-clean", "post-operation"},
               {"file-post-create", "file-post-edit", "challenge-http-01", "post-operation"},    \* one hook on both families of events
               {"file-pre-create", "file-pre-edit", "challenge-http-01-clean"} >>
Shapes == << <<"h1", "h2", "h3">>, <<"h3", "g1">>, <<"g1", "h3", "h1">>, <<"g2", "g1">>, <<"h2", "g2", "h2">>, <<"g1">> >>
MCGroups == << [name |-> "g1", hooks |-> <<"h1", "g2", "h3">>], [name |-> "g2", hooks |-> <<"h2", "h1">>] >>      \* g2 sits in the middle of g1
EventTypes == {"challenge-http-01", "challenge-http-01-clean", "post-operation", "file-pre-create", "file-post-create"}

VARIABLE mc     \* [prof, allow, exit, shape]
mvars == <<vars, mc>>

MCInit ==
    /\ \E p \in [1..3 -> 1..Len(Profiles)], a \in [1..3 -> BOOLEAN], x \in [1..3 -> {0, 1}], s \in 1..Len(Shapes) :
         /\ mc = [prof |-> p, allow |-> a, exit |-> x, shape |-> s]
         /\ conf = [defs |-> [i \in 1..3 |-> [name |-> CASE i = 1 -> "h1" [] i = 2 -> "h2" [] OTHER -> "h3",
                                               types |-> Profiles[p[i]], allow |-> a[i]]],
                    groups |-> MCGroups, lists |-> << [owner |-> "cert", names |-> Shapes[s]] >>]
    /\ present = {} /\ call = NoCall /\ running = "none" /\ pending = NoWrite /\ owed = 0 /\ bad = {}

ExitOf(h) == mc.exit[CASE h = "h1" -> 1 [] h = "h2" -> 2 [] OTHER -> 3]

(* the code: iterate over the selected hooks, stop at the first failure that is not allowed *)
(* write_file: pre hooks, the write, post hooks - create or edit according to what is on disk *)
NextTypes ==
    CASE pending.stage = "pre" -> {}
      [] pending.stage = "written" -> {IF pending.isnew THEN "file-post-create" ELSE "file-post-edit"}
      [] OTHER -> {"challenge-http-01", "challenge-http-01-clean", "post-operation",
                   IF "p" \in present THEN "file-pre-edit" ELSE "file-pre-create"}
MCBegin == /\ ~call.open /\ running = "none"
           /\ \E t \in NextTypes :
                LET all == SelectSeq(Expand(Shapes[mc.shape], 6), LAMBDA n : Def(n).types # {}) IN
                all # <<>> /\ BeginCall(t, all)
           /\ UNCHANGED mc
MCWrite == /\ ~call.open /\ running = "none" /\ pending.stage = "pre"
           /\ FileWritten("p") /\ UNCHANGED mc
MCRun == /\ call.open /\ running = "none" /\ ~call.aborted /\ call.pos < Len(call.expected)
         /\ HookStart(call.expected[call.pos + 1]) /\ UNCHANGED mc
MCEndHook == /\ running # "none"
             /\ HookEnd(running, ExitOf(running), <<>>, "other", [vars |-> 0, io |-> 0], [vars |-> 0, io |-> 0]) /\ UNCHANGED mc
(* the call returns; an aborted pre call abandons the write *)
MCFinish == /\ call.open /\ running = "none" /\ (call.aborted \/ call.pos = Len(call.expected))
            /\ bad' = Chk("C10_ByType", CallDone)
            /\ call' = NoCall
            /\ pending' = IF call.aborted THEN NoWrite ELSE pending
            /\ UNCHANGED <<conf, present, running, owed, mc>>
MCNext == MCBegin \/ MCRun \/ MCEndHook \/ MCFinish \/ MCWrite
MCSpec == MCInit /\ [][MCNext]_mvars

NoBad == bad \cap Enforce = {}
Emit == (call = NoCall /\ running = "none" /\ present = {} /\ pending = NoWrite) =>
          PrintT(<<"REPLAY", ToJson([prof |-> mc.prof, allow |-> mc.allow, exit |-> mc.exit, shape |-> mc.shape])>>)
=============================================================================
