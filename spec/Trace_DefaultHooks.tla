-------------------------- MODULE Trace_DefaultHooks --------------------------
(* What a validating CA and the driver saw while the real daemon ran with the unmodified default_hooks.toml. *)
EXTENDS DefaultHooks, Json, IOUtils
Rec == ndJsonDeserialize(IOEnv.TRACE)
VARIABLES l, gitOn
tvars == <<vars, l, gitOn>>
Ev == Rec[l]
Is(e) == l <= Len(Rec) /\ Rec[l].e = e
Adv == l' = l + 1 /\ UNCHANGED <<group, git, issuance, stage, proofFile, responder, pidFile, sock, stale, committed, stored>>
TInit == Init /\ l = 1 /\ gitOn = FALSE
TReset == Is("Reset") /\ Adv /\ gitOn' = Ev.git /\ bad' = {}
TValidated == Is("Validated") /\ Adv /\ bad' = JudgeValidation(Ev.ok) /\ UNCHANGED gitOn
TAttempt == Is("AttemptEnd") /\ Adv /\ bad' = JudgeAttempt(Ev.ok) /\ UNCHANGED gitOn
TAfter == Is("AfterRun") /\ Adv /\ bad' = JudgeAfterRun(Ev.world, gitOn, Ev.files) /\ UNCHANGED gitOn
TNext == TReset \/ TValidated \/ TAttempt \/ TAfter
Report == (bad' \cap Enforce # {}) => PrintT(<<"BAD", bad' \cap Enforce, l>>)
TSpec == TInit /\ [][TNext /\ Report]_tvars
Accepted == LET d == TLCGet("stats").diameter IN
            IF d - 1 = Len(Rec) THEN TRUE ELSE PrintT(<<"UNMATCHED", d>>) /\ FALSE
=============================================================================
