-------------------------------- MODULE Period --------------------------------
(***************************************************************************)
(* acmed/src/duration.rs::parse_duration against the documented grammar      *)
(* (acmed.toml(5), TIME PERIODS):  period = ( digits unit )+ ,               *)
(* unit in {s, m, h, d, w}, value = sum of the parts.                         *)
(* Also the outcome classes of a daemon start (C19).                          *)
(* Values are kept as <<minutes, seconds>> so that they stay inside TLC's     *)
(* 32-bit integers for every numeral of up to five digits.                    *)
(***************************************************************************)
EXTENDS Naturals, Sequences, FiniteSets, TLC, Json

CONSTANTS Enforce, Alphabet, MaxLen

VARIABLES phase, point, bad
vars == <<phase, point, bad>>
Chk(label, F) == IF F THEN {} ELSE {label}
Labels == {"C19_PeriodGrammar", "C19_PeriodValue", "C19_NoCrash", "C19_LoadsOrRejects", "C19_CycleRejected"}

DigitVal == [c \in {"0", "1", "2", "3", "4", "5", "6", "7", "8", "9"} |->
               CASE c = "0" -> 0 [] c = "1" -> 1 [] c = "2" -> 2 [] c = "3" -> 3 [] c = "4" -> 4
                 [] c = "5" -> 5 [] c = "6" -> 6 [] c = "7" -> 7 [] c = "8" -> 8 [] OTHER -> 9]
IsDigit(c) == c \in DOMAIN DigitVal
IsUnit(c) == c \in {"s", "m", "h", "d", "w"}
MinutesOf(u) == CASE u = "m" -> 1 [] u = "h" -> 60 [] u = "d" -> 1440 [] u = "w" -> 10080 [] OTHER -> 0

(* Scanner: st = "start" (a part must begin), "num" (inside a numeral), "bad".             *)
(* acc = [min, sec, n]: minutes and seconds so far, the numeral being read.                 *)
RECURSIVE Scan(_, _, _, _)
Scan(cs, i, st, acc) ==
    IF st = "bad" THEN [ok |-> FALSE, min |-> 0, sec |-> 0]
    ELSE IF i > Len(cs)
         THEN IF st = "start" /\ i > 1 THEN [ok |-> TRUE, min |-> acc.min + acc.sec \div 60, sec |-> acc.sec % 60]
              ELSE [ok |-> FALSE, min |-> 0, sec |-> 0]
    ELSE LET c == cs[i] IN
         IF IsDigit(c) THEN Scan(cs, i + 1, "num",
                                 [acc EXCEPT !.n = IF acc.n > 9999 THEN acc.n ELSE acc.n * 10 + DigitVal[c]])  \* saturates: "big" numerals are not valued
         ELSE IF IsUnit(c) /\ st = "num"
              THEN Scan(cs, i + 1, "start",
                        [min |-> IF acc.min > 1000000000 THEN acc.min ELSE acc.min + acc.n * MinutesOf(c),
                         sec |-> acc.sec + (IF c = "s" THEN acc.n ELSE 0), n |-> 0])
              ELSE Scan(cs, i + 1, "bad", acc)
Parse(cs) == Scan(cs, 1, "start", [min |-> 0, sec |-> 0, n |-> 0])

(* pt: [chars, ok, min, sec, panic, big]   (big: a numeral too long for the integers of TLC;   *)
(* then only the grammar-side of the answer and crash-freedom are judged)                       *)
JudgePeriod(pt) ==
    LET e == Parse(pt.chars) IN
         Chk("C19_NoCrash", ~pt.panic)
    \cup Chk("C19_PeriodGrammar", IF pt.big THEN (pt.ok => e.ok) ELSE pt.ok = e.ok)
    \cup Chk("C19_PeriodValue", (pt.ok /\ ~pt.big /\ e.ok) => (pt.min = e.min /\ pt.sec = e.sec))

(* pt: [hazard, outcome, message, must]   outcome in {"running", "error_exit", "crash", "hang"}; *)
(* must: the outcome the hazard class demands, or "either"                                       *)
JudgeStart(pt) ==
         Chk("C19_LoadsOrRejects", pt.outcome = "running" \/ (pt.outcome = "error_exit" /\ pt.message))
    \cup Chk("C19_CycleRejected", pt.must # "either" => pt.outcome = pt.must)

Evaluate(pt) == /\ point' = pt /\ phase' = "done"
                /\ bad' = IF pt.e = "Period" THEN JudgePeriod(pt) ELSE JudgeStart(pt)

(* Model checking: every string over Alphabet up to MaxLen, judged against the specification's  *)
(* own parser (consistency of the guards) and printed for the probe.                              *)
MCInit == phase = "init" /\ point = [e |-> "none"] /\ bad = {}
MCNext == /\ phase = "init"
          /\ \E n \in 0..MaxLen : \E cs \in [1..n -> Alphabet] :
               LET e == Parse(cs) IN
               Evaluate([e |-> "Period", chars |-> cs, ok |-> e.ok, min |-> e.min, sec |-> e.sec, panic |-> FALSE, big |-> FALSE])
MCSpec == MCInit /\ [][MCNext]_vars
NoBad == bad \cap Enforce = {}
Emit == (phase = "done") => PrintT(<<"REPLAY", ToJson(point.chars)>>)
=============================================================================
