-------------------------------- MODULE Period --------------------------------
(***************************************************************************)
(* acmed/src/duration.rs::parse_duration against the documented grammar      *)
(* (acmed.toml(5), TIME PERIODS):  period = ( digits unit )+ ,               *)
(* unit in {s, m, h, d, w}, value = sum of the parts.                         *)
(* Also the outcome classes of a daemon start (C19).                          *)
(* Values are sequences of base-1000 limbs, so that numerals of any length   *)
(* (and sums beyond 64 bits) are valued exactly inside TLC's 32-bit integers.  *)
(***************************************************************************)
EXTENDS Naturals, Sequences, FiniteSets, TLC, Json

CONSTANTS Enforce, Deviations, Alphabet, MaxLen

VARIABLES phase, point, bad
vars == <<phase, point, bad>>
Chk(label, F) == IF F THEN {} ELSE {label}
Labels == {"C19_PeriodGrammar", "C19_PeriodValue", "C19_NoCrash", "C19_LoadsOrRejects", "C19_CycleRejected"}

DigitVal == [c \in {"0", "1", "2", "3", "4", "5", "6", "7", "8", "9"} |->
               CASE c = "0" -> 0 [] c = "1" -> 1 [] c = "2" -> 2 [] c = "3" -> 3 [] c = "4" -> 4
                 [] c = "5" -> 5 [] c = "6" -> 6 [] c = "7" -> 7 [] c = "8" -> 8 [] OTHER -> 9]
IsDigit(c) == c \in DOMAIN DigitVal
IsUnit(c) == c \in {"s", "m", "h", "d", "w"}
SecondsOf(u) == CASE u = "s" -> 1 [] u = "m" -> 60 [] u = "h" -> 3600 [] u = "d" -> 86400 [] u = "w" -> 604800 [] OTHER -> 0

(* Exact arithmetic: a value is a sequence of base-1000 limbs, least significant first, without leading zero limbs  *)
(* (zero is <<>>).  limb * 604800 + carry stays below 2^31, so TLC's integers are enough for numerals of any length. *)
Base == 1000
RECURSIVE MulAdd(_, _, _)
MulAdd(v, m, c) ==                       \* v * m + c
    IF v = <<>> THEN (IF c = 0 THEN <<>> ELSE <<c % Base>> \o MulAdd(<<>>, m, c \div Base))
    ELSE LET t == Head(v) * m + c IN <<t % Base>> \o MulAdd(Tail(v), m, t \div Base)
RECURSIVE AddC(_, _, _)
AddC(a, b, c) ==
    IF a = <<>> /\ b = <<>> THEN (IF c = 0 THEN <<>> ELSE <<c>>)
    ELSE LET x == IF a = <<>> THEN 0 ELSE Head(a)
             y == IF b = <<>> THEN 0 ELSE Head(b)
             t == x + y + c
         IN <<t % Base>> \o AddC(IF a = <<>> THEN a ELSE Tail(a), IF b = <<>> THEN b ELSE Tail(b), t \div Base)
RECURSIVE Norm(_)
Norm(v) == IF v # <<>> /\ v[Len(v)] = 0 THEN Norm(SubSeq(v, 1, Len(v) - 1)) ELSE v
RECURSIVE LeqFrom(_, _, _)
LeqFrom(a, b, i) == IF i = 0 THEN TRUE ELSE IF a[i] # b[i] THEN a[i] < b[i] ELSE LeqFrom(a, b, i - 1)
Leq(a, b) == LET x == Norm(a) y == Norm(b) IN IF Len(x) # Len(y) THEN Len(x) < Len(y) ELSE LeqFrom(x, y, Len(x))
U64Max == <<615, 551, 709, 73, 744, 446, 18>>          \* 18 446 744 073 709 551 615 s: what the daemon's durations can hold

(* Scanner: st = "start" (a part must begin), "num" (inside a numeral), "bad".             *)
(* acc = [tot, n]: seconds so far, the numeral being read.                                  *)
NoVal == [ok |-> FALSE, val |-> <<>>]
RECURSIVE Scan(_, _, _, _)
Scan(cs, i, st, acc) ==
    IF st = "bad" THEN NoVal
    ELSE IF i > Len(cs)
         THEN IF st = "start" /\ i > 1 THEN [ok |-> TRUE, val |-> Norm(acc.tot)] ELSE NoVal
    ELSE LET c == cs[i] IN
         IF IsDigit(c) THEN Scan(cs, i + 1, "num", [acc EXCEPT !.n = MulAdd(acc.n, 10, DigitVal[c])])
         ELSE IF IsUnit(c) /\ st = "num"
              THEN Scan(cs, i + 1, "start", [tot |-> AddC(acc.tot, MulAdd(acc.n, SecondsOf(c), 0), 0), n |-> <<>>])
              ELSE Scan(cs, i + 1, "bad", acc)
Parse(cs) == Scan(cs, 1, "start", [tot |-> <<>>, n |-> <<>>])

(* pt: [chars, ok, val, panic]: what parse_duration answered - refused, or accepted with val seconds (limbs) *)
JudgePeriod(pt) ==
    LET e == Parse(pt.chars)
        fits == Leq(e.val, U64Max)
    IN   Chk("C19_NoCrash", ~pt.panic)
    \* accepted exactly per the grammar: nothing outside it, and everything inside it that a duration can hold
    \cup Chk("C19_PeriodGrammar", (pt.ok => e.ok) /\ ((e.ok /\ fits) => pt.ok))
    \* ... and equal to the sum of the parts: a sum that does not fit cannot be accepted as something else
    \cup Chk("C19_PeriodValue", (pt.ok /\ e.ok) => Norm(pt.val) = e.val)

(* the code, with named departures *)
Code(cs) ==
    LET e == Parse(cs) IN
    IF ~e.ok THEN NoVal
    ELSE IF Leq(e.val, U64Max) THEN e
    ELSE IF "SaturatingPeriod" \in Deviations THEN [ok |-> TRUE, val |-> U64Max]     \* too large: clamped instead of refused
    ELSE NoVal

(* pt: [hazard, outcome, message, must]   outcome in {"running", "error_exit", "crash", "hang"}; *)
(* must: the outcome the hazard class demands, or "either"                                       *)
JudgeStart(pt) ==
         Chk("C19_LoadsOrRejects", pt.outcome = "running" \/ (pt.outcome = "error_exit" /\ pt.message))
    \cup Chk("C19_CycleRejected", pt.must # "either" => pt.outcome = pt.must)

Evaluate(pt) == /\ point' = pt /\ phase' = "done"
                /\ bad' = IF pt.e = "Period" THEN JudgePeriod(pt) ELSE JudgeStart(pt)

(* Model checking: every string over Alphabet up to MaxLen, judged against the specification's  *)
(* own parser (consistency of the guards) and printed for the probe.                              *)
MCInit == phase = "init" /\ point = [e |-> "none"] /\ bad = {}
MCNext == /\ phase = "init"
          /\ \E n \in 0..MaxLen : \E cs \in [1..n -> Alphabet] :
               LET e == Code(cs) IN
               Evaluate([e |-> "Period", chars |-> cs, ok |-> e.ok, val |-> e.val, panic |-> FALSE])
MCSpec == MCInit /\ [][MCNext]_vars
NoBad == bad \cap Enforce = {}
Emit == (phase = "done") => PrintT(<<"REPLAY", ToJson(point.chars)>>)
=============================================================================
