---------------------------- MODULE Trace_AcmeFlow ----------------------------
(***************************************************************************)
(* Trace validation for AcmeFlow: the events of ONE certificate (CA events  *)
(* of its requests, hook-recorder events of its hooks, the daemon's own     *)
(* attempt events), in file order.  One event = one action.                  *)
(***************************************************************************)
EXTENDS AcmeFlow, Json, IOUtils

Rec == ndJsonDeserialize(IOEnv.TRACE)

VARIABLE l
tvars == <<vars, l>>
Ev == Rec[l]
Is(e) == l <= Len(Rec) /\ Rec[l].e = e
Adv == l' = l + 1 /\ UNCHANGED pc

KeyFacts(f) == [exists |-> f.exists, ok |-> f.ok, spki |-> f.spki, leaf |-> "none", sha |-> f.sha]
CrtFacts(f) == [exists |-> f.exists, ok |-> f.ok, spki |-> "none", leaf |-> f.leaf, sha |-> f.sha]
EmptyCfg == [ids |-> <<>>, kp_reuse |-> FALSE, subject |-> <<>>, digest |-> "none", healthy |-> FALSE]

TInit == InitWith(EmptyCfg, Absent, Absent) /\ l = 1

(* New scenario: configuration of the certificate and what is on disk.       *)
TReset ==
    /\ Is("Reset") /\ Adv
    /\ cfg' = [ids |-> Ev.ids, kp_reuse |-> Ev.kp_reuse, subject |-> Ev.subject, digest |-> Ev.digest,
               healthy |-> Ev.healthy]
    /\ keyFile' = KeyFacts(Ev.key) /\ certFile' = CrtFacts(Ev.cert)
    /\ phase' = "idle" /\ reached' = 0 /\ authz' = NoAuthz /\ authzSeen' = {} /\ hooksRun' = <<>>
    /\ cleanDue' = <<>> /\ csr' = NoCsr /\ served' = "none" /\ keyUsed' = "none" /\ wrote' = {}
    /\ postOps' = 0 /\ result' = [done |-> FALSE, ok |-> FALSE, status |-> "none", hf |-> FALSE]
    /\ snapshot' = [key |-> "none", cert |-> "none", ok |-> TRUE]
    /\ clock' = 0 /\ lastFail' = NoFail /\ attempts' = 0 /\ succeeded' = FALSE /\ bad' = {}

TSleep == Is("Sleep") /\ Adv /\ Sleep(Ev.ms)
TStart == Is("AttemptStart") /\ Adv /\ AttemptStart(Ev.real)
TOrder == Is("NewOrder") /\ Adv /\ NewOrder(Ev.ids)
TAuthz ==
    /\ Is("Authz") /\ Adv
    /\ IF Ev.id \in authzSeen
       THEN UNCHANGED <<cfg, keyFile, certFile, phase, reached, authz, authzSeen, hooksRun, cleanDue, csr,
                        served, keyUsed, wrote, postOps, result, snapshot, clock, lastFail, attempts, succeeded>>
            /\ bad' = {}
       ELSE AuthzFetched([id |-> Ev.id, orig |-> Ev.orig, status |-> Ev.status,
                          offered |-> {Ev.offered[i] : i \in 1..Len(Ev.offered)}, exp |-> Ev.exp])
THook == Is("ChalHook") /\ Adv /\ (IF Ev.clean THEN CleanHook(Ev) ELSE ChallengeHook(Ev))
TChalPost == Is("ChalPost") /\ Adv /\ ChallengePosted(Ev.authz, Ev.chal)
TKeyPair == Is("KeyPair") /\ Adv /\ KeyPairObtained(Ev.how)
TFileWrite ==
    /\ Is("FileWrite") /\ Adv
    /\ wrote' = wrote \cup {Ev.ftype} /\ bad' = {}
    /\ UNCHANGED <<cfg, keyFile, certFile, phase, reached, authz, authzSeen, hooksRun, cleanDue, csr,
                   served, keyUsed, postOps, result, snapshot, clock, lastFail, attempts, succeeded>>
TFinalize == Is("Finalize") /\ Adv /\ Finalize(Ev.csr, Ev.issued)
TCert == Is("CertServed") /\ Adv /\ CertServed(Ev.sha, Ev.genuine)
THookFailed == Is("HookFailed") /\ Adv /\ HookFailed
TReqEnd == Is("ReqEnd") /\ Adv /\ ReqEnd(Ev.ok, Ev.status, Ev.carries)
TPostOp == Is("PostOp") /\ Adv /\ PostOperation(Ev.is_success, Ev.status, KeyFacts(Ev.key), CrtFacts(Ev.cert))
TEnd == Is("AttemptEnd") /\ Adv /\ AttemptEnd(Ev.ok, Ev.real)
TDaemonEnd == Is("DaemonEnd") /\ Adv /\ DaemonEnd(Ev.clean)
(* Files changed by the driver between two runs of the daemon (disk pre-state). *)
TDisk ==
    /\ Is("Disk") /\ Adv
    /\ keyFile' = KeyFacts(Ev.key) /\ certFile' = CrtFacts(Ev.cert) /\ bad' = {}
    /\ UNCHANGED <<cfg, phase, reached, authz, authzSeen, hooksRun, cleanDue, csr, served, keyUsed, wrote,
                   postOps, result, snapshot, clock, lastFail, attempts, succeeded>>

TNext == TReset \/ TSleep \/ TStart \/ TOrder \/ TAuthz \/ THook \/ TChalPost \/ TKeyPair \/ TFileWrite
         \/ TFinalize \/ TCert \/ THookFailed \/ TReqEnd \/ TPostOp \/ TEnd \/ TDaemonEnd \/ TDisk

Report == (bad' \cap Enforce # {}) => PrintT(<<"BAD", bad' \cap Enforce, l>>)

TSpec == TInit /\ [][TNext /\ Report]_tvars

Accepted ==
    LET d == TLCGet("stats").diameter IN
    IF d - 1 = Len(Rec) THEN TRUE
    ELSE /\ PrintT(<<"UNMATCHED", d>>)
         /\ FALSE
=============================================================================
