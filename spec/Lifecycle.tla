------------------------------- MODULE Lifecycle -------------------------------
(***************************************************************************)
(* Beyond the listed properties: the start-up life-cycle shared by acmed and *)
(* tacd (acme_common/src/lib.rs::init_server, write_pid_file, clean_pid_file *)
(* and the two main functions): pid file, detaching, exit codes.              *)
(*                                                                         *)
(*   start(mode, pidopt, input)                                              *)
(*     mode  in {"foreground", "background"}                                  *)
(*     pidopt in {"file", "none"}                                             *)
(*     input in {"ok", "bad_config", "bad_log_level"}                         *)
(* Guards (labels starting with L_) are judged on what a driver observes after starting    *)
(* the real binaries.                                                         *)
(***************************************************************************)
EXTENDS Naturals, Sequences, FiniteSets, TLC, Json

CONSTANTS Enforce
VARIABLES phase, point, bad
vars == <<phase, point, bad>>
Chk(label, F) == IF F THEN {} ELSE {label}
Labels == {"L_PidFileNamesTheProcess", "L_NoPidFileWhenDisabled", "L_PidFileRemovedOnFailedStart", "L_ExitCode", "L_Detaches"}

(* what the code is expected to do *)
Expected(pt) ==
    CASE pt.input = "bad_log_level" ->                  \* set_log_system fails before anything else
           [running |-> FALSE, exit |-> 2, pidfile |-> "absent", detached |-> FALSE]
      [] pt.input = "bad_config" ->                      \* init_server ran, then the configuration was refused
           [running |-> FALSE, exit |-> 1, pidfile |-> "absent", detached |-> pt.mode = "background"]
      [] OTHER ->
           [running |-> TRUE, exit |-> 0, pidfile |-> IF pt.pidopt = "file" THEN "names_process" ELSE "absent",
            detached |-> pt.mode = "background"]

(* obs: [running, exit (of the launched process; 0 when it detached or still runs), pidfile in {"absent","names_process","stale"}, detached] *)
Judge(pt, obs) ==
    LET e == Expected(pt) IN
         Chk("L_PidFileNamesTheProcess", (e.pidfile = "names_process") => obs.pidfile = "names_process")
    \cup Chk("L_NoPidFileWhenDisabled", pt.pidopt = "none" => obs.pidfile = "absent")
    \cup Chk("L_PidFileRemovedOnFailedStart", ~e.running => obs.pidfile = "absent")
    \cup Chk("L_ExitCode", obs.running = e.running /\ (~e.running /\ ~e.detached => obs.exit = e.exit))
    \cup Chk("L_Detaches", e.running => obs.detached = e.detached)

Evaluate(pt, obs) == point' = pt /\ phase' = "done" /\ bad' = Judge(pt, obs)
MCInit == phase = "init" /\ point = [mode |-> "none"] /\ bad = {}
MCNext == /\ phase = "init"
          /\ \E d \in {"acmed", "tacd"}, m \in {"foreground", "background"}, p \in {"file", "none"}, i \in {"ok", "bad_config", "bad_log_level"} :
               LET pt == [daemon |-> d, mode |-> m, pidopt |-> p, input |-> i] IN Evaluate(pt, Expected(pt))
MCSpec == MCInit /\ [][MCNext]_vars
NoBad == bad \cap Enforce = {}
Emit == (phase = "done") => PrintT(<<"REPLAY", ToJson(point)>>)
=============================================================================
