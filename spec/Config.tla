-------------------------------- MODULE Config --------------------------------
(***************************************************************************)
(* acmed/src/config.rs: which value a setting finally has.                  *)
(*  - three-level precedence (certificate > endpoint > global > built-in)    *)
(*    of renew_delay, random_early_renew, file_name_format; certificate >    *)
(*    global > built-in for the storage directory;                           *)
(*  - read_cnf: the include graph is loaded depth-first, each file once      *)
(*    (canonical path), list sections are concatenated in load order, and a  *)
(*    global option takes the value of the LAST loaded file that sets it     *)
(*    (acmed.toml(5): "the one of the last included file will be used");      *)
(*  - references a certificate or account depends on must resolve and        *)
(*    certificate ids must be unique, otherwise start-up is refused.          *)
(* The functions below are the specification; TLC enumerates their whole     *)
(* bounded domain and prints it, the probe runs the real loader on each      *)
(* point and Trace_Config compares.                                           *)
(***************************************************************************)
EXTENDS Naturals, Sequences, FiniteSets, TLC, Json

CONSTANTS Enforce, Deviations, Graphs, MaxFiles

VARIABLES phase, point, bad
vars == <<phase, point, bad>>
Chk(label, F) == IF F THEN {} ELSE {label}
SeqToSet(s) == {s[i] : i \in 1..Len(s)}
Labels == {"C14_MostSpecificWins", "C14_GlobalLastWins", "C14_ListsMerged", "C14_ReadOnce", "C14_RejectsDangling"}

-----------------------------------------------------------------------------
(* 1. precedence: present = [cert, endpoint, global] (endpoint is ignored for the directory) *)
Winner(setting, present) ==
    IF present.cert THEN "cert"
    ELSE IF present.endpoint /\ setting # "directory" THEN "endpoint"
    ELSE IF present.global THEN "global"
    ELSE "default"

-----------------------------------------------------------------------------
(* 2. include graph: g[i] = sequence of the files file i includes (after glob expansion,   *)
(*    canonical paths); file 1 is the main file.  Depth-first pre-order, each file once.    *)
RECURSIVE Visit(_, _, _)
Visit(g, todo, acc) ==        \* todo: stack of files still to load; acc: load order so far
    IF todo = <<>> THEN acc
    ELSE LET f == Head(todo) IN
         IF \E k \in 1..Len(acc) : acc[k] = f
         THEN Visit(g, Tail(todo), acc)
         ELSE Visit(g, g[f] \o Tail(todo), Append(acc, f))
LoadOrder(g) == Visit(g, <<1>>, <<>>)

(* sets[i] = TRUE iff file i sets the global option.  0 = nobody: built-in default.          *)
RECURSIVE LastSetter(_, _, _)
LastSetter(order, sets, k) ==
    IF k = 0 THEN 0 ELSE IF sets[order[k]] THEN order[k] ELSE LastSetter(order, sets, k - 1)
EffectiveFrom(g, sets) == LET o == LoadOrder(g) IN LastSetter(o, sets, Len(o))

(* What the code did before the repair for the seven options read_cnf forgot: the first      *)
(* [global] table found wins for them.                                                        *)
RECURSIVE FirstSetter(_, _, _)
FirstSetter(order, sets, k) ==
    IF k > Len(order) THEN 0 ELSE IF sets[order[k]] THEN order[k] ELSE FirstSetter(order, sets, k + 1)

-----------------------------------------------------------------------------
(* 3. references *)
(* "ok-split": the same valid configuration with its sections spread over included files (references resolve across files);  *)
(* "dup-cert-include" / "dup-cert-glob": the second certificate of the same id sits in another file of the tree                   *)
MustLoad(kind) == kind \in {"ok", "ok-split"}

-----------------------------------------------------------------------------
Judge(pt) ==
    CASE pt.e = "Prec" ->
           Chk("C14_MostSpecificWins", pt.observed = Winner(pt.setting, pt.present))
      [] pt.e = "Load" ->
           Chk("C14_GlobalLastWins", pt.observed = EffectiveFrom(pt.g, pt.sets))
           \cup Chk("C14_ListsMerged", pt.loaded /\ SeqToSet(pt.certs) = SeqToSet(LoadOrder(pt.g)))
           \cup Chk("C14_ReadOnce", pt.loaded /\ \A i, j \in 1..Len(pt.certs) : pt.certs[i] = pt.certs[j] => i = j)
      [] pt.e = "Ref" ->
           Chk("C14_RejectsDangling", pt.loaded = MustLoad(pt.kind))
      [] OTHER -> {}

Evaluate(pt) == /\ point' = pt /\ phase' = "done" /\ bad' = Judge(pt)

-----------------------------------------------------------------------------
(* Model checking: the whole bounded domain, with the model of the code as observer.          *)
Settings == {"renew_delay", "random_early_renew", "file_name_format", "directory"}
B3 == [cert : BOOLEAN, endpoint : BOOLEAN, global : BOOLEAN]
RefKinds == {"ok", "ok-split", "endpoint", "account", "hook", "account-hook", "group-member", "rate-limit", "dup-cert",
             "dup-cert-include", "dup-cert-glob"}

CodeEffective(g, sets) ==
    IF "GlobalFirstWins" \in Deviations THEN FirstSetter(LoadOrder(g), sets, 1) ELSE EffectiveFrom(g, sets)

MCInit == phase = "init" /\ point = [e |-> "none"] /\ bad = {}
MCNext ==
    /\ phase = "init"
    /\ \/ \E s \in Settings, pr \in B3 :
            Evaluate([e |-> "Prec", setting |-> s, present |-> pr, observed |-> Winner(s, pr)])
       \/ \E gi \in DOMAIN Graphs :
            LET g == Graphs[gi] IN
            \E sets \in [1..Len(g) -> BOOLEAN] :
               Evaluate([e |-> "Load", gi |-> gi, g |-> g, sets |-> sets, observed |-> CodeEffective(g, sets),
                         certs |-> LoadOrder(g), loaded |-> TRUE])
       \/ \E k \in RefKinds : Evaluate([e |-> "Ref", kind |-> k, loaded |-> MustLoad(k)])
MCSpec == MCInit /\ [][MCNext]_vars
NoBad == bad \cap Enforce = {}
Emit == (phase = "done") => PrintT(<<"REPLAY", ToJson(point)>>)

(* include graphs: main file first.  Repeated includes, shared files, cycles, depth 3.        *)
MCGraphs == <<
   << <<2, 3>>, <<>>, <<>> >>,                  \* A includes B and C
   << <<2>>, <<3>>, <<>> >>,                    \* A -> B -> C
   << <<2, 3>>, <<3>>, <<>> >>,                 \* C reachable twice
   << <<2>>, <<1>> >>,                          \* cycle of two
   << <<2, 3, 2>>, <<>>, <<>> >>,               \* B named twice
   << <<2>>, <<3>>, <<1>> >>,                   \* cycle of three
   << <<2>>, <<3>>, <<4>>, <<>> >>,             \* depth 3
   << <<2, 3>>, <<4>>, <<4>>, <<>> >>,          \* diamond
   << <<1, 2>>, <<>> >>,                        \* a file that includes itself
   << <<3, 2>>, <<>>, <<2>> >> >>               \* order of includes matters
=============================================================================
