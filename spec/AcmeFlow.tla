------------------------------- MODULE AcmeFlow -------------------------------
(***************************************************************************)
(* One certificate's renewal attempts: acmed/src/main_event_loop.rs        *)
(* (renew_certificate), acmed/src/acme_proto.rs (request_certificate),     *)
(* acme_proto/certificate.rs (get_key_pair) and the two files the attempt  *)
(* installs.  The HTTP mechanics below a request are AcmeHttp's business;  *)
(* here a request is one step with an outcome.                              *)
(*                                                                         *)
(* The actions are the observable steps of an attempt, in program order:   *)
(*   AttemptStart, NewOrder, AuthzFetched, ChallengeHook, ChallengePosted,  *)
(*   CleanHook, KeyPairObtained, FileWritten, Finalize, CertServed, ReqEnd, *)
(*   PostOperation, AttemptEnd, Sleep, DaemonEnd.                            *)
(* Trace_AcmeFlow binds one recorded event to one action; the model         *)
(* checking Next (further down) drives them as the code does, under every   *)
(* fault plan of the environment.                                            *)
(*                                                                         *)
(* Chk(label, F) leaves `label' in `bad' when F is false; steps are total.  *)
(***************************************************************************)
EXTENDS Naturals, Sequences, FiniteSets, TLC

CONSTANTS Enforce, Deviations,
          MCIds,          \* model checking: configured identifiers (sequence of records)
          MCReuse         \* model checking: kp_reuse

VARIABLES
    cfg,        \* [ids: Seq([id, chal]), kp_reuse, subject, digest]  (this certificate's configuration)
    keyFile,    \* [exists, ok, spki]          what the private-key file holds
    certFile,   \* [exists, ok, leaf, sha]     what the certificate file holds
    phase,      \* "idle" | "running" | "reqdone" | "postop"
    reached,    \* furthest protocol step of the attempt: 0 start .. 5 downloaded
    authz,      \* the authorization being worked on (record) or NoAuthz
    authzSeen,  \* authorizations already fetched in this attempt
    hooksRun,   \* challenge hooks run for `authz': sequence of [chal, ok]
    cleanDue,   \* hook data awaiting their clean hooks: sequence of records
    csr,        \* facts about the CSR sent in this attempt, or NoCsr
    served,     \* digest of the chain the CA served for this attempt's order, or "none"
    keyUsed,    \* spki of the key pair obtained in this attempt, or "none"
    wrote,      \* file types written in this attempt
    postOps,    \* post-operation hook runs in this attempt
    result,     \* [done, ok, status]
    snapshot,   \* [key, cert] digests at the start of the attempt
    clock,      \* virtual time (ms): sum of the deliberate sleeps
    lastFail,   \* [at (virtual ms), real (ms)] of the last failed attempt's end, or NoFail
    attempts,   \* attempts started
    succeeded,  \* some attempt of this daemon run ended successfully
    bad,
    pc          \* model checking only: program counter of request_certificate

vars == <<cfg, keyFile, certFile, phase, reached, authz, authzSeen, hooksRun, cleanDue, csr,
          served, keyUsed, wrote, postOps, result, snapshot, clock, lastFail, attempts, succeeded, bad, pc>>

Chk(label, F) == IF F THEN {} ELSE {label}

LabelsC01 == {"C01_OrderIds", "C01_CsrNames", "C01_CsrSubject", "C01_CsrDigest", "C01_CsrSelfSig",
              "C01_CsrKeyIsStoredKey", "C01_KeyReuse"}
LabelsC02 == {"C02_CertIsServedChain", "C02_KeyIsCsrKey"}
LabelsC03 == {"C03_PairOK", "C03_Untouched"}
LabelsC05 == {"C05_ConfiguredType", "C05_Proof", "C05_HooksBeforeReady", "C05_NoHookWhenValid",
              "C05_CleanSameData", "C05_PostsConfiguredType", "C05_SolvableIsSolved", "C10_CleanAfterValidation"}
LabelsC07 == {"C07_HookFailureFailsAttempt", "C07_ExactlyOnePostOp", "C07_SuccessIffInstalled", "C07_FailureCarriesError",
              "C07_PauseAfterFailure", "C07_Alive", "C07_PostOpReportsResult", "C07_HealthySucceeds"}

NoAuthz == [id |-> "none", orig |-> "none", status |-> "none", offered |-> {},
            exp |-> [http_file |-> "none", http_proof |-> "none", dns_proof |-> "none",
                     tls_proof |-> "none", tls_raw |-> "none", tls_name |-> "none"]]
NoCsr == [spki |-> "none"]
NoFail == [at |-> 0, real |-> 0, set |-> FALSE]
Absent == [exists |-> FALSE, ok |-> FALSE, spki |-> "none", leaf |-> "none", sha |-> "none"]

SeqToSet(s) == {s[i] : i \in 1..Len(s)}
CfgIds == [i \in 1..Len(cfg.ids) |-> cfg.ids[i].id]
(* certificate.rs::get_identifier_from_str as it should be: the entry whose     *)
(* identifier is the one the authorization was created for.                      *)
Lookup(orig) == LET S == {i \in 1..Len(cfg.ids) : cfg.ids[i].id = orig}
                IN IF S = {} THEN "none" ELSE cfg.ids[CHOOSE i \in S : TRUE].chal

Keep(vs) == UNCHANGED vs
PairOK(k, c) == ~c.exists \/ (c.ok /\ k.exists /\ k.ok /\ c.leaf = k.spki)

InitWith(c, k, crt) ==
    /\ cfg = c /\ keyFile = k /\ certFile = crt
    /\ phase = "idle" /\ reached = 0 /\ authz = NoAuthz /\ authzSeen = {} /\ hooksRun = <<>>
    /\ cleanDue = <<>> /\ csr = NoCsr /\ served = "none" /\ keyUsed = "none" /\ wrote = {}
    /\ postOps = 0 /\ result = [done |-> FALSE, ok |-> FALSE, status |-> "none", hf |-> FALSE]
    /\ snapshot = [key |-> "none", cert |-> "none", ok |-> TRUE]
    /\ clock = 0 /\ lastFail = NoFail /\ attempts = 0 /\ succeeded = FALSE /\ bad = {} /\ pc = "idle"

-----------------------------------------------------------------------------
(* A deliberate wait of the daemon (virtual time).                              *)
Sleep(ms) ==
    /\ clock' = clock + ms /\ bad' = {}
    /\ Keep(<<cfg, keyFile, certFile, phase, reached, authz, authzSeen, hooksRun, cleanDue, csr,
              served, keyUsed, wrote, postOps, result, snapshot, lastFail, attempts, succeeded>>)

(* renew_certificate is entered (again).  real: the daemon's own monotonic ms.  *)
AttemptStart(real) ==
    /\ bad' = Chk("C07_PauseAfterFailure",
                  lastFail.set => (clock - lastFail.at >= 1000 \/ real - lastFail.real >= 1000))
    /\ phase' = "running" /\ reached' = 0 /\ authz' = NoAuthz /\ authzSeen' = {}
    /\ hooksRun' = <<>> /\ cleanDue' = <<>> /\ csr' = NoCsr /\ served' = "none"
    /\ keyUsed' = "none" /\ wrote' = {} /\ postOps' = 0
    /\ result' = [done |-> FALSE, ok |-> FALSE, status |-> "none", hf |-> FALSE]
    /\ snapshot' = [key |-> keyFile.sha, cert |-> certFile.sha, ok |-> PairOK(keyFile, certFile)]
    /\ attempts' = attempts + 1
    /\ Keep(<<cfg, keyFile, certFile, clock, lastFail, succeeded>>)

(* A newOrder request reached the CA with these identifiers.                     *)
NewOrder(ids) ==
    /\ bad' = Chk("C01_OrderIds", ids = CfgIds)
    /\ reached' = IF reached < 1 THEN 1 ELSE reached
    /\ Keep(<<cfg, keyFile, certFile, phase, authz, authzSeen, hooksRun, cleanDue, csr, served,
              keyUsed, wrote, postOps, result, snapshot, clock, lastFail, attempts, succeeded>>)

(* The CA answered the first fetch of authorization a.                           *)
AuthzFetched(a) ==
    /\ authz' = a /\ authzSeen' = authzSeen \cup {a.id} /\ hooksRun' = <<>>
    /\ reached' = IF reached < 2 THEN 2 ELSE reached
    /\ bad' = {}
    /\ Keep(<<cfg, keyFile, certFile, phase, cleanDue, csr, served, keyUsed, wrote, postOps,
              result, snapshot, clock, lastFail, attempts, succeeded>>)

(* A challenge hook ran.  h = [chal, clean, identifier, file_name, proof,        *)
(* raw_proof, tls_name, ok]                                                      *)
ProofOK(h) ==
    CASE h.chal = "http-01" -> h.file_name = authz.exp.http_file /\ h.proof = authz.exp.http_proof
      [] h.chal = "dns-01"  -> h.proof = authz.exp.dns_proof
      [] h.chal = "tls-alpn-01" -> /\ h.proof = authz.exp.tls_proof /\ h.raw_proof = authz.exp.tls_raw
                                   /\ h.tls_name = authz.exp.tls_name
      [] OTHER -> FALSE

ChallengeHook(h) ==
    /\ bad' = Chk("C05_ConfiguredType", h.chal = Lookup(authz.orig))
         \cup Chk("C05_Proof", ProofOK(h))
         \cup Chk("C05_NoHookWhenValid", authz.status = "pending")
    /\ hooksRun' = Append(hooksRun, [chal |-> h.chal, ok |-> h.ok])
    /\ cleanDue' = Append(cleanDue, h)
    /\ Keep(<<cfg, keyFile, certFile, phase, reached, authz, authzSeen, csr, served, keyUsed,
              wrote, postOps, result, snapshot, clock, lastFail, attempts, succeeded>>)

(* The CA was told that challenge `chal' of authorization `aid' is ready.        *)
ChallengePosted(aid, chal) ==
    /\ bad' = Chk("C05_HooksBeforeReady",
                  /\ aid = authz.id
                  /\ Len(hooksRun) > 0
                  /\ \A i \in 1..Len(hooksRun) : hooksRun[i].ok /\ hooksRun[i].chal = chal)
         \cup Chk("C05_PostsConfiguredType", chal = Lookup(authz.orig))
    /\ Keep(<<cfg, keyFile, certFile, phase, reached, authz, authzSeen, hooksRun, cleanDue, csr,
              served, keyUsed, wrote, postOps, result, snapshot, clock, lastFail, attempts, succeeded>>)

(* A clean hook ran: it must get the data of a challenge hook run before.        *)
SameData(h, d) == /\ h.chal = d.chal /\ h.identifier = d.identifier /\ h.file_name = d.file_name
                  /\ h.proof = d.proof /\ h.raw_proof = d.raw_proof /\ h.tls_name = d.tls_name
CleanHook(h) ==
    /\ bad' = Chk("C05_CleanSameData", \E i \in 1..Len(cleanDue) : SameData(h, cleanDue[i]))
    /\ cleanDue' = IF \E i \in 1..Len(cleanDue) : SameData(h, cleanDue[i])
                   THEN LET i == CHOOSE i \in 1..Len(cleanDue) : SameData(h, cleanDue[i])
                        IN SubSeq(cleanDue, 1, i - 1) \o SubSeq(cleanDue, i + 1, Len(cleanDue))
                   ELSE cleanDue
    /\ Keep(<<cfg, keyFile, certFile, phase, reached, authz, authzSeen, hooksRun, csr, served,
              keyUsed, wrote, postOps, result, snapshot, clock, lastFail, attempts, succeeded>>)

(* get_key_pair returned: how = "reused" | "generated".                          *)
KeyPairObtained(how) ==
    /\ bad' = Chk("C01_KeyReuse",
                  (how = "reused") <=> (cfg.kp_reuse /\ keyFile.exists /\ keyFile.ok))
    /\ reached' = IF reached < 3 THEN 3 ELSE reached
    /\ Keep(<<cfg, keyFile, certFile, phase, authz, authzSeen, hooksRun, cleanDue, csr, served,
              keyUsed, wrote, postOps, result, snapshot, clock, lastFail, attempts, succeeded>>)

(* storage::write_file stored a file of this attempt.  f: what it now holds.     *)
FileWritten(ftype, f) ==
    /\ wrote' = wrote \cup {ftype}
    /\ keyFile' = IF ftype = "pk" THEN f ELSE keyFile
    /\ certFile' = IF ftype = "crt" THEN f ELSE certFile
    /\ bad' = {}
    /\ Keep(<<cfg, phase, reached, authz, authzSeen, hooksRun, cleanDue, csr, served, keyUsed,
              postOps, result, snapshot, clock, lastFail, attempts, succeeded>>)

(* The CA received the finalize request.  c: facts about the CSR; issued: the    *)
(* digest of the chain it will serve ("none" if it refused).                     *)
SubjectOK(c) == SeqToSet(c.subject) = SeqToSet(cfg.subject) /\ Len(c.subject) = Len(cfg.subject)
Finalize(c, issued) ==
    /\ bad' = Chk("C10_CleanAfterValidation", cleanDue = <<>>)     \* every validated challenge has had its clean hooks by now
         \cup Chk("C01_CsrNames", c.names = CfgIds \/
                      (SeqToSet(c.names) = SeqToSet(CfgIds) /\ Len(c.names) = Len(CfgIds)))
         \cup Chk("C01_CsrSubject", SubjectOK(c))
         \cup Chk("C01_CsrDigest", c.digest = IF c.eddsa THEN "none" ELSE cfg.digest)   \* EdDSA signs without a digest
         \cup Chk("C01_CsrSelfSig", c.verify_ok)
    /\ csr' = c /\ keyUsed' = c.spki
    /\ served' = issued
    /\ reached' = IF reached < 4 THEN 4 ELSE reached
    /\ Keep(<<cfg, keyFile, certFile, phase, authz, authzSeen, hooksRun, cleanDue, wrote, postOps,
              result, snapshot, clock, lastFail, attempts, succeeded>>)

(* The CA served the certificate body (sha: what actually went out).             *)
CertServed(sha, genuine) ==
    /\ served' = sha
    /\ reached' = IF reached < 5 THEN 5 ELSE reached
    /\ bad' = {}
    /\ Keep(<<cfg, keyFile, certFile, phase, authz, authzSeen, hooksRun, cleanDue, csr, keyUsed,
              wrote, postOps, result, snapshot, clock, lastFail, attempts, succeeded>>)

(* A hook of this attempt ended with a non-zero exit code or was killed by a signal, and its  *)
(* definition does not say allow_failure.                                                      *)
HookFailed ==
    /\ result' = [result EXCEPT !.hf = TRUE] /\ bad' = {}
    /\ Keep(<<cfg, keyFile, certFile, phase, reached, authz, authzSeen, hooksRun, cleanDue, csr, served,
              keyUsed, wrote, postOps, snapshot, clock, lastFail, attempts, succeeded>>)

(* request_certificate returned.                                                 *)
ReqEnd(ok, status, carries) ==
    /\ result' = [done |-> TRUE, ok |-> ok, status |-> status, hf |-> result.hf]
    /\ phase' = "reqdone"
    /\ bad' = Chk("C07_FailureCarriesError", ok \/ (status # "" /\ status # "success" /\ status # "none" /\ carries))
         \cup Chk("C07_HookFailureFailsAttempt", result.hf => ~ok)     \* a hook that ended badly (exit code or signal) without allow_failure is a failed step
    /\ Keep(<<cfg, keyFile, certFile, reached, authz, authzSeen, hooksRun, cleanDue, csr, served,
              keyUsed, wrote, postOps, snapshot, clock, lastFail, attempts, succeeded>>)

(* A post-operation hook ran.  It saw k, c on disk.                              *)
Installed(k, c) == /\ c.exists /\ c.ok /\ k.exists /\ k.ok
                   /\ served # "none" /\ c.sha = served
                   /\ csr.spki # "none" /\ k.spki = csr.spki
PostOperation(is_success, status, k, c) ==
    /\ postOps' = postOps + 1
    /\ keyFile' = k /\ certFile' = c
    /\ phase' = "postop"
    /\ bad' = Chk("C07_SuccessIffInstalled", is_success => Installed(k, c))
         \cup Chk("C07_PostOpReportsResult",
                  result.done /\ is_success = result.ok /\ (is_success \/ status = result.status))
         \cup Chk("C03_PairOK", snapshot.ok => PairOK(k, c))
         \cup Chk("C03_Untouched",
                  (~is_success /\ reached < 5) => (k.sha = snapshot.key /\ c.sha = snapshot.cert))
         \cup Chk("C02_CertIsServedChain", is_success => (c.exists /\ c.sha = served /\ served # "none"))
         \cup Chk("C02_KeyIsCsrKey", is_success => (k.exists /\ k.ok /\ k.spki = csr.spki))
         \cup Chk("C01_CsrKeyIsStoredKey", is_success => (k.exists /\ k.ok /\ k.spki = csr.spki))
    /\ Keep(<<cfg, reached, authz, authzSeen, hooksRun, cleanDue, csr, served, keyUsed, wrote,
              result, snapshot, clock, lastFail, attempts, succeeded>>)

(* renew_certificate returned.                                                    *)
AttemptEnd(ok, real) ==
    /\ bad' = Chk("C07_ExactlyOnePostOp", postOps = 1)
    /\ lastFail' = IF ok THEN NoFail ELSE [at |-> clock, real |-> real, set |-> TRUE]
    /\ phase' = "idle"
    /\ succeeded' = (succeeded \/ ok)
    /\ Keep(<<cfg, keyFile, certFile, reached, authz, authzSeen, hooksRun, cleanDue, csr, served,
              keyUsed, wrote, postOps, result, snapshot, clock, attempts>>)

(* The daemon process ended.  With the attempt budget of the harness the only     *)
(* legitimate end is the budget exit (code 0, no signal, not killed as hung).     *)
DaemonEnd(clean) ==
    /\ bad' = Chk("C07_Alive", clean)
         \cup Chk("C07_HealthySucceeds", (cfg.healthy /\ attempts > 0) => succeeded)
         \* every pending authorization gets solved: with a CA that offers what is configured and validates what is proved,
         \* the certificate is issued (an authorization that is never fetched shows as an order that never becomes ready)
         \cup Chk("C05_SolvableIsSolved", (cfg.healthy /\ attempts > 0) => succeeded)
    /\ phase' = "idle" /\ lastFail' = NoFail /\ succeeded' = FALSE
    /\ Keep(<<cfg, keyFile, certFile, reached, authz, authzSeen, hooksRun, cleanDue, csr, served,
              keyUsed, wrote, postOps, result, snapshot, clock, attempts>>)

-----------------------------------------------------------------------------
(* Model checking.  The attempt as request_certificate runs it, with the        *)
(* environment deciding the outcome of each step (fault plan), for the          *)
(* configuration MCIds / MCReuse and every pre-existing pair.                    *)
(*                                                                               *)
(* The base actions above never mention pc; the wrappers below set it.            *)

K(n) == [exists |-> TRUE, ok |-> TRUE, spki |-> n, leaf |-> "none", sha |-> n]
Crt(leaf, sha) == [exists |-> TRUE, ok |-> TRUE, spki |-> "none", leaf |-> leaf, sha |-> sha]
Garbage == [exists |-> TRUE, ok |-> FALSE, spki |-> "none", leaf |-> "none", sha |-> "garbage"]

MCCfg == [ids |-> MCIds, kp_reuse |-> MCReuse, subject |-> <<>>, digest |-> "sha256", healthy |-> FALSE]

MCInit == \E pre \in {"none", "pair", "badkey"} :
            InitWith(MCCfg,
                     CASE pre = "none" -> Absent [] pre = "pair" -> K("k0") [] OTHER -> Garbage,
                     CASE pre = "none" -> Absent [] pre = "pair" -> Crt("k0", "c0") [] OTHER -> Absent)

Pc == pc
SetPc(p) == pc' = p
NewKey == IF attempts = 1 THEN "k1" ELSE "k2"
NewCrt == IF attempts = 1 THEN "c1" ELSE "c2"

MCStart == /\ phase = "idle" /\ attempts < 2
           /\ ("RequeueImmediately" \in Deviations \/ ~lastFail.set \/ clock - lastFail.at >= 1000)
           /\ AttemptStart(0) /\ SetPc("order")
MCSleepAfterFail ==
    /\ phase = "idle" /\ lastFail.set /\ clock - lastFail.at < 1000
    /\ "RequeueImmediately" \notin Deviations
    /\ Sleep(1000) /\ UNCHANGED pc

FailNow(status) == ReqEnd(FALSE, status, TRUE) /\ SetPc("postop")

MCOrder == /\ phase = "running" /\ Pc = "order"
           /\ \/ (NewOrder(CfgIds) /\ SetPc("authz"))
              \/ (NewOrder(CfgIds) /\ SetPc("fail"))
MCFail == /\ phase = "running" /\ Pc = "fail" /\ FailNow("scripted fault")

MCExp == [http_file |-> "tok", http_proof |-> "ka", dns_proof |-> "dn",
          tls_proof |-> "tp", tls_raw |-> "tr", tls_name |-> "tn"]
(* what acme_proto/structs/authorization.rs::get_proof / get_file_name hand over *)
MCHookData(chal, okh) ==
    [chal |-> chal, clean |-> FALSE, identifier |-> authz.id, ok |-> okh,
     file_name |-> IF chal = "http-01" THEN "tok" ELSE "none",
     proof |-> CASE chal = "http-01" -> "ka" [] chal = "dns-01" -> "dn" [] OTHER -> "tp",
     raw_proof |-> IF chal = "tls-alpn-01" THEN "tr" ELSE "none",
     tls_name |-> IF chal = "tls-alpn-01" THEN "tn" ELSE "none"]

MCAuthz == /\ phase = "running" /\ Pc = "authz"
           /\ \/ /\ \E i \in 1..Len(cfg.ids) :
                     /\ cfg.ids[i].id \notin authzSeen
                     /\ \E st \in {"pending", "valid"} :
                          AuthzFetched([NoAuthz EXCEPT !.id = cfg.ids[i].id, !.orig = cfg.ids[i].id,
                                                       !.status = st, !.offered = {cfg.ids[i].chal},
                                                       !.exp = MCExp])
                          /\ SetPc(IF st = "valid" THEN "authz" ELSE "hook")
              \/ /\ authzSeen = SeqToSet(CfgIds) /\ SetPc("key")
                 /\ Keep(<<cfg, keyFile, certFile, phase, reached, authz, authzSeen, hooksRun, cleanDue,
                           csr, served, keyUsed, wrote, postOps, result, snapshot, clock, lastFail, attempts, succeeded>>)
                 /\ bad' = {}
              \/ /\ SetPc("fail") /\ bad' = {}
                 /\ Keep(<<cfg, keyFile, certFile, phase, reached, authz, authzSeen, hooksRun, cleanDue,
                           csr, served, keyUsed, wrote, postOps, result, snapshot, clock, lastFail, attempts, succeeded>>)

(* certificate.rs::get_identifier_from_str as the code has it: the first entry    *)
(* whose value equals the authorization's identifier once "*." is stripped.        *)
CodeLookup(orig) ==
    IF "WildcardLookupStripsStar" \in Deviations
    THEN cfg.ids[1].chal     \* in the MC configuration a name and its wildcard: first entry wins
    ELSE Lookup(orig)

MCHook == /\ phase = "running" /\ Pc = "hook"
          /\ \E okh \in BOOLEAN :
               /\ ChallengeHook(MCHookData(CodeLookup(authz.orig), okh))
               /\ SetPc(IF okh THEN "post" ELSE "fail")
MCPost == /\ phase = "running" /\ Pc = "post"
          /\ ChallengePosted(authz.id, CodeLookup(authz.orig))
          /\ \/ SetPc("clean") \/ SetPc("fail")
MCClean == /\ phase = "running" /\ Pc = "clean"
           /\ Len(cleanDue) > 0
           /\ CleanHook(cleanDue[1]) /\ SetPc("authz")

MCKey == /\ phase = "running" /\ Pc = "key"
         /\ IF cfg.kp_reuse /\ keyFile.exists /\ keyFile.ok
            THEN KeyPairObtained("reused") /\ SetPc("finalize")
            ELSE KeyPairObtained("generated")
                 /\ SetPc(IF "KeyWrittenBeforeFinalize" \in Deviations THEN "writekey_early" ELSE "finalize")
MCWriteKeyEarly == /\ phase = "running" /\ Pc = "writekey_early"
                   /\ FileWritten("pk", K(NewKey)) /\ SetPc("finalize")
CurKey == IF "pk" \in wrote \/ (cfg.kp_reuse /\ keyFile.exists /\ keyFile.ok) THEN keyFile.spki ELSE NewKey
MCFinalize == /\ phase = "running" /\ Pc = "finalize"
              /\ \/ /\ Finalize([spki |-> CurKey, names |-> CfgIds, subject |-> <<>>, digest |-> "sha256", eddsa |-> FALSE,
                                 verify_ok |-> TRUE], NewCrt)
                    /\ SetPc("download")
                 \/ /\ Finalize([spki |-> CurKey, names |-> CfgIds, subject |-> <<>>, digest |-> "sha256", eddsa |-> FALSE,
                                 verify_ok |-> TRUE], "none")
                    /\ SetPc("fail")
MCDownload == /\ phase = "running" /\ Pc = "download"
              /\ \/ (CertServed(NewCrt, TRUE) /\ SetPc("install"))
                 \/ (CertServed("junk", FALSE) /\ SetPc(IF "CertWrittenUnparsed" \in Deviations THEN "install_junk" ELSE "fail"))
                 \/ (SetPc("fail") /\ bad' = {} /\
                     Keep(<<cfg, keyFile, certFile, phase, reached, authz, authzSeen, hooksRun, cleanDue,
                            csr, served, keyUsed, wrote, postOps, result, snapshot, clock, lastFail, attempts, succeeded>>))
MCInstall == /\ phase = "running" /\ Pc \in {"install", "install_junk"}
             /\ IF "pk" \notin wrote /\ ~(cfg.kp_reuse /\ keyFile.exists /\ keyFile.ok)
                THEN FileWritten("pk", K(csr.spki)) /\ UNCHANGED pc
                ELSE /\ FileWritten("crt", IF Pc = "install" THEN Crt(csr.spki, served)
                                            ELSE [Garbage EXCEPT !.sha = served])
                     /\ SetPc("ok")
MCOk == /\ phase = "running" /\ Pc = "ok" /\ ReqEnd(TRUE, "success", TRUE) /\ SetPc("postop")
MCPostOp == /\ phase = "reqdone" /\ PostOperation(result.ok, result.status, keyFile, certFile) /\ UNCHANGED pc
MCEnd == /\ phase = "postop" /\ AttemptEnd(result.ok, 0) /\ SetPc("idle")

MCNext == MCStart \/ MCSleepAfterFail \/ MCOrder \/ MCFail \/ MCAuthz \/ MCHook \/ MCPost \/ MCClean
          \/ MCKey \/ MCWriteKeyEarly \/ MCFinalize \/ MCDownload \/ MCInstall \/ MCOk \/ MCPostOp \/ MCEnd

MCSpec == MCInit /\ [][MCNext]_vars

NoBad == bad \cap Enforce = {}

(* Configurations used by the model-checking configs (MCIds <- ...).             *)
MCIdsWild == <<[id |-> "dns:a", chal |-> "http-01"], [id |-> "dns:*.a", chal |-> "dns-01"]>>
MCIdsWildRev == <<[id |-> "dns:*.a", chal |-> "dns-01"], [id |-> "dns:a", chal |-> "http-01"]>>
MCIdsTwo == <<[id |-> "dns:a", chal |-> "tls-alpn-01"], [id |-> "ip:1.2.3.4", chal |-> "http-01"]>>

(* Non-vacuity witnesses: reachable states (TLC must report them "violated").     *)
W_SuccessReached == ~(phase = "postop" /\ result.ok)
W_FailAfterFinalize == ~(phase = "postop" /\ ~result.ok /\ reached >= 4)
W_SecondAttempt == attempts < 2
=============================================================================
