------------------------------ MODULE Trace_Trust ------------------------------
EXTENDS Trust, IOUtils
Rec == ndJsonDeserialize(IOEnv.TRACE)
VARIABLE l
tvars == <<vars, l>>
Ev == Rec[l]
S(x) == {x[i] : i \in 1..Len(x)}
TInit == MCInit /\ l = 1
TEval == /\ l <= Len(Rec) /\ l' = l + 1
         /\ Evaluate([conf |-> S(Ev.conf), holder |-> Ev.holder, server |-> Ev.server, badsrc |-> Ev.badsrc, filestate |-> Ev.filestate],
                     [requests |-> Ev.requests, success |-> Ev.success])
Report == (bad' \cap Enforce # {}) => PrintT(<<"BAD", bad' \cap Enforce, l>>)
TSpec == TInit /\ [][TEval /\ Report]_tvars
Accepted == LET d == TLCGet("stats").diameter IN
            IF d - 1 = Len(Rec) THEN TRUE ELSE PrintT(<<"UNMATCHED", d>>) /\ FALSE
=============================================================================
