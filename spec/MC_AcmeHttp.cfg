SPECIFICATION Spec
CONSTANTS
  MaxTries = 3
  MaxPolls = 2
  Nonces = {"n1","n2","n3","n4","n5","n6","n7","n8","n9"}
  Contents = {"u1","u2"}
  MaxRequests = 3
  Enforce = {"C04_Fresh","C04_Url","C04_Flattened","C04_AlgMatchesKey","C04_JwkOnlyForNewAccount","C04_KidIsAccountUrl","C04_SigUnderRecordedKey","C04_KeyChangeInner","C04_Eab","C08_AtMost10","C08_RetryOnlyRecoverable","C08_SameContent","C08_NewestNonce","C08_NoSuccessOnError","C08_NoProblemDocFails","C08_PollAtMost20","C08_ClassifyRecoverable"}
  Deviations = {}
INVARIANTS TypeOK NoBad C08_BoundInv C08_SuccessInv C08_PollInv
PROPERTIES C08_NoResendAct
CHECK_DEADLOCK FALSE
