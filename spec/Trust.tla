-------------------------------- MODULE Trust --------------------------------
(***************************************************************************)
(* acmed/src/http.rs::get_client + config.rs::Endpoint::to_generic: which   *)
(* roots an endpoint's HTTPS client trusts and when a request may reach the  *)
(* server.  Roots = system store + --root-cert + the endpoint's              *)
(* root_certificates + the global root_certificates; every listed file must *)
(* be readable PEM or the request fails before anything is sent.              *)
(***************************************************************************)
EXTENDS Naturals, Sequences, FiniteSets, TLC, Json

CONSTANTS Enforce, Deviations
VARIABLES phase, point, bad
vars == <<phase, point, bad>>
Chk(label, F) == IF F THEN {} ELSE {label}
Labels == {"C18_NoRequestUnlessTrusted", "C18_TrustedWorks", "C18_BadRootFileFails"}

Sources == {"cli", "endpoint", "global"}
ServerKinds == {"trusted", "untrusted", "other_host", "expired"}
FileStates == {"ok", "unreadable", "malformed"}

(* pt.conf: set of configured sources; pt.holder: the source whose file holds the root that signed the server's  *)
(* chain ("none": nobody has it); pt.server: what the server presents; pt.badsrc / pt.filestate: one configured   *)
(* source's file may be unreadable or malformed.                                                                    *)
FilesOK(pt) == pt.filestate = "ok" \/ pt.badsrc \notin pt.conf
HasRoot(pt) == pt.holder \in pt.conf /\ ~(pt.badsrc = pt.holder /\ pt.filestate # "ok")
Trusted(pt) == FilesOK(pt) /\ HasRoot(pt) /\ pt.server = "trusted"

(* obs: [requests (number of HTTP requests that reached the server), success (certificate issued)] *)
Judge(pt, obs) ==
         Chk("C18_NoRequestUnlessTrusted", obs.requests > 0 => Trusted(pt))
    \cup Chk("C18_TrustedWorks", Trusted(pt) => (obs.success /\ obs.requests > 0))
    \cup Chk("C18_BadRootFileFails", ~FilesOK(pt) => (obs.requests = 0 /\ ~obs.success))

Evaluate(pt, obs) == point' = pt /\ phase' = "done" /\ bad' = Judge(pt, obs)

(* the code: every listed file is loaded (an error aborts the request), then the platform verifier decides *)
CodeObs(pt) ==
    LET filesok == IF "IgnoreBadRootFile" \in Deviations THEN TRUE ELSE FilesOK(pt)
        ok == filesok /\ (IF "NoVerification" \in Deviations THEN TRUE ELSE (HasRoot(pt) /\ pt.server = "trusted"))
    IN [requests |-> IF ok THEN 1 ELSE 0, success |-> ok]

MCInit == phase = "init" /\ point = [conf |-> {}] /\ bad = {}
MCNext == /\ phase = "init"
          /\ \E conf \in SUBSET Sources, holder \in Sources \cup {"none"}, server \in ServerKinds,
                badsrc \in Sources, fs \in FileStates :
               /\ (fs # "ok" => badsrc \in conf)          \* a file state only matters for a configured source
               /\ (fs = "ok" => badsrc = "cli")           \* canonical representative
               /\ (holder # "none" => holder \in conf)
               /\ LET pt == [conf |-> conf, holder |-> holder, server |-> server, badsrc |-> badsrc, filestate |-> fs]
                  IN Evaluate(pt, CodeObs(pt))
MCSpec == MCInit /\ [][MCNext]_vars
NoBad == bad \cap Enforce = {}
Emit == (phase = "done") => PrintT(<<"REPLAY", ToJson(point)>>)
=============================================================================
