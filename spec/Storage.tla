------------------------------- MODULE Storage -------------------------------
(***************************************************************************)
(* acmed/src/storage.rs::write_file for the three file types (account,     *)
(* private key "pk", certificate "crt"): existence test, open with a mode,  *)
(* write, chown; and what the file looks like afterwards.                   *)
(*                                                                         *)
(* Content is abstract: a sequence of runs [fill, len] (the probe writes    *)
(* constant-fill blocks, so residue of an older content shows as a second   *)
(* run).  Modes are sets of permission bits.                                 *)
(*                                                                         *)
(* Decides C02 (no residue) and C13 (mode and owner).                        *)
(***************************************************************************)
EXTENDS Naturals, Sequences, FiniteSets, TLC, Json

CONSTANTS Enforce, Deviations,
          Types,         \* {"account", "pk", "crt"}
          Lens,          \* lengths (in blocks) a write may have   (model checking)
          MaxOps         \* writes per history                      (model checking)

VARIABLES
    cfg,      \* [mode: [Types -> set of bits], uid: [Types -> id or Keep], gid: likewise, umask: set of bits]
    file,     \* [Types -> [exists, runs, mode, uid, gid, byDaemon]]
    last,     \* [Types -> the last content handed to write_file, or <<>>]
    hist,     \* model checking: the operations so far (hidden from the fingerprint by VIEW)
    bad

vars == <<cfg, file, last, hist, bad>>
view == <<cfg, file, last, bad, Len(hist)>>

Chk(label, F) == IF F THEN {} ELSE {label}
Keep == 0 - 1       \* "no owner configured": the file keeps whatever owner it has
LabelsC02 == {"C02_NoResidue", "C02_CompleteAtReturn"}
LabelsC13 == {"C13_Mode", "C13_Owner", "C13_NeverWiderThanAsked", "C13_RewriteKeepsMode"}

AllBits == {"ur", "uw", "ux", "gr", "gw", "gx", "or", "ow", "ox", "suid", "sgid", "sticky"}
GroupOther == {"gr", "gw", "gx", "or", "ow", "ox"}
NoFile == [exists |-> FALSE, runs |-> <<>>, mode |-> {}, uid |-> 0, gid |-> 0, byDaemon |-> FALSE]

(* open(.., mode) of a new file: the process umask is applied by the kernel.  *)
Created(t) == cfg.mode[t] \ cfg.umask

(* What write_file makes of the file of type t when handed `data' ([fill, len]).*)
NewRuns(old, data) ==
    IF "WriteNoTruncate" \in Deviations /\ old.exists
    THEN LET oldLen == IF old.runs = <<>> THEN 0 ELSE old.runs[1].len  \* single-run files in the model
         IN IF oldLen > data.len
            THEN <<data, [fill |-> old.runs[1].fill, len |-> oldLen - data.len]>>
            ELSE <<data>>
    ELSE <<data>>

Owner(t, cur, which) ==
    IF t = "account" THEN cur     \* account files are never chown'ed
    ELSE IF cfg[which][t] = Keep THEN cur ELSE cfg[which][t]

(* The write as the code performs it; `ret' is what is on disk the moment       *)
(* write_file hands over (to its post-write hook, or to its caller), `seen'     *)
(* what is there once the file no longer changes (model checking: computed;     *)
(* trace validation: as observed).  The two differ when the write is still in   *)
(* flight on tokio's blocking pool when write_file moves on.                    *)
Write(t, data, ret, seen) ==
    LET old == file[t] IN
    /\ file' = [file EXCEPT ![t] = [seen EXCEPT !.byDaemon = (old.byDaemon \/ ~old.exists)]]
    /\ last' = [last EXCEPT ![t] = <<data>>]
    /\ bad' = Chk("C02_NoResidue", seen.exists /\ seen.runs = <<data>>)
         \cup Chk("C02_CompleteAtReturn", ret.exists /\ ret.runs = <<data>>)
         \cup Chk("C13_Mode", ~old.exists => seen.mode = Created(t))
         \cup Chk("C13_RewriteKeepsMode", old.exists => seen.mode = old.mode)
         \cup Chk("C13_Owner", seen.uid = Owner(t, old.uid, "uid") /\ seen.gid = Owner(t, old.gid, "gid"))
         \cup Chk("C13_NeverWiderThanAsked",
                  (~old.exists /\ t \in {"pk", "account"}) =>
                      (seen.mode \cap GroupOther) \subseteq (cfg.mode[t] \cap GroupOther))
    /\ UNCHANGED cfg

(* Somebody else replaced what the file holds (a restored backup, a deployment *)
(* tool, an editor) between two writes of the daemon: the next write still      *)
(* leaves exactly its data - also when that data is what the daemon wrote last. *)
External(t, seen) ==
    /\ file' = [file EXCEPT ![t] = [seen EXCEPT !.byDaemon = file[t].byDaemon]]
    /\ last' = [last EXCEPT ![t] = <<>>]
    /\ bad' = {} /\ UNCHANGED cfg

-----------------------------------------------------------------------------
(* Model checking: all histories of MaxOps writes, every configuration of the *)
(* MCConfigs set, every pre-existing file.                                     *)
Computed(t, data) ==
    LET old == file[t] IN
    [exists |-> TRUE, runs |-> NewRuns(old, data),
     mode |-> IF old.exists THEN old.mode ELSE Created(t),
     uid |-> Owner(t, old.uid, "uid"), gid |-> Owner(t, old.gid, "gid"), byDaemon |-> FALSE]

(* tokio::fs::File::write_all returns once the data is handed to a blocking thread; *)
(* without a flush the file is still empty (just truncated/created) at that point.   *)
AtReturn(t, data) ==
    IF "WriteNotFlushed" \in Deviations THEN [Computed(t, data) EXCEPT !.runs = <<>>] ELSE Computed(t, data)

MCModes == {{"ur", "uw"}, {"ur", "uw", "gr"}, {"ur", "uw", "gr", "or"}, {"ur"}, {"ur", "uw", "gr", "gw", "or", "ow"}}
MCUmasks == {{}, {"gw", "ow"}, {"gw", "or", "ow", "ox"}, {"gr", "gw", "gx", "or", "ow", "ox"}}
MCOwners == {Keep, 1, 65534}
MCPre2 == [exists |-> TRUE, runs |-> <<[fill |-> 9, len |-> 2]>>, mode |-> {"ur", "uw"}, uid |-> 0, gid |-> 0, byDaemon |-> FALSE]
MCPre3 == [exists |-> TRUE, runs |-> <<[fill |-> 9, len |-> 3]>>, mode |-> {"ur", "uw", "gr", "gw", "or", "ow"}, uid |-> 0, gid |-> 0, byDaemon |-> FALSE]

(* MCGrid = "modes": every mode/umask/owner/pre-existing-file combination, two writes *)
(* of one length;  "content": one configuration, every history of lengths.            *)
CONSTANT MCGrid
MCInit ==
    /\ \E mpk \in (IF MCGrid = "modes" THEN MCModes ELSE {{"ur", "uw"}}),
          mcrt \in (IF MCGrid = "modes" THEN MCModes ELSE {{"ur", "uw", "gr", "or"}}),
          um \in (IF MCGrid = "modes" THEN MCUmasks ELSE {{"gw", "ow"}}),
          u \in (IF MCGrid = "modes" THEN MCOwners ELSE {Keep}),
          g \in (IF MCGrid = "modes" THEN MCOwners ELSE {Keep}),
          pre \in 1..3, ty \in Types :
         \* (MCGrid = "full": one configuration, every history of lengths on a disk of DiskBlocks blocks)
         /\ cfg = [mode |-> [t \in Types |-> CASE t = "pk" -> mpk [] t = "crt" -> mcrt [] OTHER -> {"ur", "uw"}],
                   uid |-> [t \in Types |-> u], gid |-> [t \in Types |-> g], umask |-> um, pre |-> pre, type |-> ty]
         /\ file = [t \in Types |-> CASE pre = 1 -> NoFile [] pre = 2 -> MCPre2 [] OTHER -> MCPre3]
    /\ last = [t \in Types |-> <<>>]
    /\ hist = <<>> /\ bad = {}

MCWrite ==
    /\ Len(hist) < MaxOps
    /\ \E t \in {cfg.type}, n \in Lens :
         LET data == [fill |-> Len(hist) + 1, len |-> n] IN
         /\ Write(t, data, AtReturn(t, data), Computed(t, data))
         /\ hist' = Append(hist, [type |-> t, len |-> n])

(* A disk that is full: nothing can be written beyond DiskBlocks blocks (model checking: MCGrid = "full").  write_file *)
(* then reports an error and nothing is claimed about the file - unless the error is swallowed (sync_all instead of     *)
(* flush does not report a failed write of tokio's background thread), in which case the partial file is presented as   *)
(* the new content.                                                                                                      *)
DiskBlocks == 1
MCWriteFull ==
    /\ MCGrid = "full" /\ Len(hist) < MaxOps
    /\ \E t \in {cfg.type}, n \in Lens :
         LET data == [fill |-> Len(hist) + 1, len |-> n]
             part == [Computed(t, data) EXCEPT !.runs = IF n > DiskBlocks THEN <<[fill |-> data.fill, len |-> DiskBlocks]>> ELSE <<data>>]
         IN /\ IF n <= DiskBlocks \/ "WriteErrorSwallowed" \in Deviations
               THEN Write(t, data, part, part)                                  \* reported as written
               ELSE /\ file' = [file EXCEPT ![t] = part] /\ last' = [last EXCEPT ![t] = <<>>] /\ bad' = {} /\ UNCHANGED cfg
            /\ hist' = Append(hist, [type |-> t, len |-> n])

MCSpec == MCInit /\ [][(MCGrid # "full" /\ MCWrite) \/ MCWriteFull]_vars

NoBad == bad \cap Enforce = {}

(* C02 as a state invariant: whatever was written last is exactly what the file holds. *)
C02_Inv == \A t \in Types : last[t] # <<>> => file[t].runs = last[t]
(* C13 as a state invariant: a key or account file created by the daemon is never      *)
(* readable or writable by group/others beyond what was asked.                          *)
C13_Inv == \A t \in {"pk", "account"} :
              (file[t].exists /\ file[t].byDaemon) => (file[t].mode \cap GroupOther) \subseteq (cfg.mode[t] \cap GroupOther)

(* Spec -> implementation: every complete history is printed once, with its configuration *)
(* and the pre-existing files, for the probe to replay.                                    *)
Emit == (Len(hist) = MaxOps) =>
          PrintT(<<"REPLAY", ToJson([cfg |-> cfg, hist |-> hist])>>)
=============================================================================
