#!/bin/sh
# Runs every registered check (quick tier by default) and reports exit codes. Usage: ./run_all.sh [quick|thorough] [IDs...]
cd "$(dirname "$0")"
TIER=${1:-quick}; shift 2>/dev/null
mkdir -p work evidence replays
IDS=${*:-$(python3 -c "import json; print(' '.join(c['property_id'] for c in json.load(open('MANIFEST.json'))['checks']))")}
for id in $IDS; do
  start=$(date +%s)
  ./check $id --tier $TIER > work/run_$id.log 2>&1
  rc=$?
  echo "$id rc=$rc $(( $(date +%s) - start ))s $(grep -c VIOLATION work/run_$id.log) violations"
done
