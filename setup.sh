#!/bin/sh
# Builds the verification harness (vcrypto oracle, hook recorder) and warms the
# build of /repo with the verification feature. Offline; files on disk only.
set -e
cd "$(dirname "$0")"
export CARGO_NET_OFFLINE=true
(cd harness && cargo build --offline)
cargo build --offline --manifest-path /repo/acmed/Cargo.toml --features breard_r_acmed_verif --target-dir target/repo
cargo build --offline --manifest-path /repo/tacd/Cargo.toml --target-dir target/repo
cargo build --offline --release --manifest-path /repo/tacd/Cargo.toml --target-dir target/repo
mkdir -p work replays evidence
